#!/usr/bin/env python3
"""try_benign.py <benign dir> [--seed N]: apply a behaviour-preserving refactoring
(benign/<id>/patch.diff, written by an independent sub-agent) to a scratch copy of
/repo and run ALL quick checks against it.  Every check must exit 0: a VIOLATION
here is a false alarm of ours (or the refactoring is not behaviour-preserving -
to be decided by reading the replay).  Writes <dir>/result.json."""
import json, os, shutil, subprocess, sys, tempfile
VERIF = os.path.dirname(os.path.dirname(os.path.abspath(__file__)))
d = os.path.abspath(sys.argv[1])
seed = sys.argv[sys.argv.index('--seed') + 1] if '--seed' in sys.argv else '0'
props = [c['property_id'] for c in json.load(open(os.path.join(VERIF, 'MANIFEST.json')))['checks']]
scratch = tempfile.mkdtemp(prefix='benign_', dir='/tmp')
out = {'patch': os.path.basename(d), 'master_seed': int(seed), 'checks': {}}
try:
    subprocess.run('rsync -a --exclude .git --exclude "*.pyc" --exclude __pycache__ /repo/ %s/' % scratch, shell=True, check=True)
    p = subprocess.run('patch -p1 --no-backup-if-mismatch -F3 < %s/patch.diff' % d, shell=True, cwd=scratch, capture_output=True, text=True)
    out['applies'] = p.returncode == 0
    if p.returncode == 0:
        env = dict(os.environ, VERIF_REPO=scratch, VERIF_SEED=seed)
        for pr in props:
            r = subprocess.run([os.path.join(VERIF, 'bin', 'check'), pr], cwd=VERIF, env=env, capture_output=True, text=True, timeout=3000)
            lines = [l for l in r.stdout.splitlines() if l.startswith('VIOLATION') or l.startswith('  engine=') or 'HARNESS' in l]
            out['checks'][pr] = {'exit': r.returncode, 'lines': [l[:300] for l in lines[:4]]}
            print(pr, r.returncode, lines[:2], flush=True)
    out['all_clean'] = out.get('applies') and all(v['exit'] == 0 for v in out['checks'].values())
finally:
    shutil.rmtree(scratch, ignore_errors=True)
    subprocess.run('git checkout -- evidence', shell=True, cwd=VERIF)
json.dump(out, open(os.path.join(d, 'result.json'), 'w'), indent=1)
print('ALL CLEAN' if out.get('all_clean') else 'NOT CLEAN')
