#!/usr/bin/env python3
"""matrix.py [--runs N]: run every quick check (reduced budget) against every
seeded change; write seeded/MATRIX.json {seed id: {property: detected?}}."""
import json, os, subprocess, sys, shutil, tempfile
VERIF = os.path.dirname(os.path.dirname(os.path.abspath(__file__)))
PROPS = ['C01','C02','C03','C04','C05','C06','C07','C08','C09','C10','C11','C12','C13','C16','C17','C18','C19','C20']
runs = int(sys.argv[sys.argv.index('--runs') + 1]) if '--runs' in sys.argv else 6000
out_path = os.path.join(VERIF, 'seeded', 'MATRIX.json')
matrix = json.load(open(out_path)) if os.path.exists(out_path) else {}
for sid in sorted(os.listdir(os.path.join(VERIF, 'seeded'))):
    d = os.path.join(VERIF, 'seeded', sid)
    if not os.path.isdir(d) or sid in matrix:
        continue
    scratch = tempfile.mkdtemp(prefix='matrix_', dir='/tmp')
    try:
        subprocess.run('rsync -a --exclude .git --exclude tests /repo/ %s/' % scratch, shell=True, check=True)
        p = subprocess.run('patch -p1 --no-backup-if-mismatch -F3 < %s/patch.diff' % d, shell=True, cwd=scratch, capture_output=True)
        if p.returncode != 0:
            matrix[sid] = {'error': 'patch does not apply'}
            continue
        row = {}
        env = dict(os.environ, VERIF_REPO=scratch)
        for prop in PROPS:
            r = subprocess.run('%s/bin/check %s --runs %d' % (VERIF, prop, runs), shell=True, cwd=VERIF,
                               env=env, capture_output=True, text=True, timeout=1800)
            row[prop] = {0: 'clean', 1: 'VIOLATION', 2: 'harness-error'}.get(r.returncode, str(r.returncode))
        matrix[sid] = row
        json.dump(matrix, open(out_path, 'w'), indent=1, sort_keys=True)
        print(sid, ' '.join('%s:%s' % (k, v[0]) for k, v in row.items()), flush=True)
    finally:
        shutil.rmtree(scratch, ignore_errors=True)
subprocess.run('git checkout -- evidence', shell=True, cwd=VERIF)
