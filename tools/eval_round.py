#!/usr/bin/env python3
"""eval_round.py <round dir> <letter> [--final] [props...]: run tools/try_seed.py on
<round dir>/<Cxx>/<letter> for every property that has a patch.diff and no entry
yet in <round dir>/confirm.jsonl (or final.jsonl with --final: no tests/demo)."""
import json, os, subprocess, sys
VERIF = os.path.dirname(os.path.dirname(os.path.abspath(__file__)))
args = [a for a in sys.argv[1:] if not a.startswith('--')]
final = '--final' in sys.argv
root, letter, only = args[0], args[1], args[2:]
out = os.path.join(root, 'final.jsonl' if final else 'confirm.jsonl')
done = set()
if os.path.exists(out):
    for l in open(out):
        if l.startswith('{'):
            done.add(json.loads(l)['seed'])
for p in sorted(os.listdir(root)):
    d = os.path.join(root, p, letter)
    if not os.path.exists(os.path.join(d, 'patch.diff')) or not os.path.exists(os.path.join(d, 'meta.json')):
        continue
    if only and p not in only:
        continue
    if os.path.abspath(d) in done and not only:
        continue
    cmd = [sys.executable, os.path.join(VERIF, 'tools', 'try_seed.py'), d]
    if final:
        cmd += ['--no-tests', '--no-demo']
    r = subprocess.run(cmd, capture_output=True, text=True, timeout=3600)
    line = [l for l in r.stdout.splitlines() if l.startswith('{')]
    if not line:
        print(p, 'ERROR', r.stdout[-300:], r.stderr[-300:]); continue
    j = json.loads(line[-1])
    if only:   # re-evaluation replaces the earlier line
        keep = [l for l in open(out)] if os.path.exists(out) else []
        keep = [l for l in keep if not (l.startswith('{') and json.loads(l)['seed'] == j['seed'])]
        open(out, 'w').writelines(keep)
    open(out, 'a').write(line[-1] + '\n')
    print(p, 'applies', j.get('applies'), 'tests', j.get('tests_pass'), 'demo', j.get('demo_fails_with_change'),
          j.get('demo_passes_without'), 'DETECTED' if j.get('detected') else 'missed',
          {k: (v['rc'], (v['detail'] or [''])[0][:150], v.get('cross_hits')) for k, v in j.get('checks', {}).items()}, flush=True)
