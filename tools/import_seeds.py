#!/usr/bin/env python3
"""Copy confirmed seeded changes into /verif/seeded/<id>/ with a merged meta.json."""
import json, os, shutil, sys
VERIF = os.path.dirname(os.path.dirname(os.path.abspath(__file__)))

def load(fn):
    out = {}
    if not os.path.exists(fn):
        return out
    for l in open(fn):
        l = l.strip()
        if l.startswith('{'):
            d = json.loads(l)
            out['/'.join(d['seed'].split('/')[-2:])] = d
    return out

def main():
    src_root, confirm_files, final_file, notes_file = sys.argv[1], sys.argv[2].split(','), sys.argv[3], sys.argv[4]
    confirm = {}
    for f in confirm_files:
        confirm.update(load(f))
    final = load(final_file)
    notes = json.load(open(notes_file)) if os.path.exists(notes_file) else {}
    for prop in sorted(x for x in os.listdir(src_root) if os.path.isdir(os.path.join(src_root, x))):
        for x in sorted(os.listdir(os.path.join(src_root, prop))):
            d = os.path.join(src_root, prop, x)
            if not os.path.isdir(d) or not os.path.exists(os.path.join(d, 'patch.diff')):
                continue
            key = '%s/%s' % (prop, x)
            c = confirm.get(key)
            if not c or not (c.get('applies') and c.get('tests_pass') and
                             c.get('demo_fails_with_change') and c.get('demo_passes_without')):
                print('not confirmed, skipped:', key, c and {k: c.get(k) for k in ('applies', 'tests_pass', 'demo_fails_with_change', 'demo_passes_without')})
                continue
            sid = '%s-%s' % (prop, x)
            dst = os.path.join(VERIF, 'seeded', sid)
            os.makedirs(dst, exist_ok=True)
            for fn in ('patch.diff', 'demo.py'):
                shutil.copy(os.path.join(d, fn), os.path.join(dst, fn))
            m = json.load(open(os.path.join(d, 'meta.json')))
            f = final.get(key, {})
            meta = {
                'id': sid, 'breaks_property': prop,
                'summary': m.get('summary'), 'needs_to_manifest': m.get('needs'),
                'author': 'independent sub-agent given only the property text and a scratch worktree',
                'author_verification': m.get('verified'),
                'confirmed_by_us': {
                    'what_we_ran': 'tools/try_seed.py: scratch copy of /repo (rsync, no .git) + patch -p1; '
                                   'pytest tests/unit tests/functional -q -p no:cacheprovider --timeout=900 -x; '
                                   'demo.py run in the scratch copy (with the change) and in /repo (without)',
                    'patch_applies': c.get('applies'), 'tests_pass_with_change': c.get('tests_pass'),
                    'tests_tail': c.get('tests_tail'),
                    'demo_fails_with_change': c.get('demo_fails_with_change'),
                    'demo_passes_without': c.get('demo_passes_without')},
                'detected_by': {p: {'exit': v['rc'], 'violations_reported': v['violations'],
                                    'first': (v['detail'] or [''])[0]}
                                for p, v in (f.get('checks') or {}).items()},
                'detected': bool(f.get('detected')),
                'first_evaluation': {p: {'exit': v['rc'], 'first': (v['detail'] or v.get('harness') or [''])[0][:200]}
                                     for p, v in (c.get('checks') or {}).items()},
                'note': notes.get(sid),
            }
            json.dump(meta, open(os.path.join(dst, 'meta.json'), 'w'), indent=1)
            print('imported', sid, 'detected' if meta['detected'] else 'MISSED')

if __name__ == '__main__':
    main()
