#!/usr/bin/env python3
"""try_seed.py <seed dir> [--props C01,C05] [--runs N] [--no-tests]

Evaluate one independently seeded breaking change (patch.diff + demo.py +
meta.json) in a scratch copy of /repo (never in /repo itself):
  1. the patch applies to the current tree;
  2. the repository's unit+functional tests still pass with it;
  3. its demonstration fails with it and passes without it;
  4. which of our quick checks report a VIOLATION (VERIF_REPO=<scratch>).
Prints one JSON line; the scratch copy is removed afterwards."""
import argparse
import json
import os
import shutil
import subprocess
import sys
import tempfile

VERIF = os.path.dirname(os.path.dirname(os.path.abspath(__file__)))


def sh(cmd, cwd=None, env=None, timeout=1800):
    p = subprocess.run(cmd, shell=True, cwd=cwd, env=env, capture_output=True,
                       text=True, timeout=timeout)
    return p.returncode, (p.stdout + p.stderr)


def main():
    ap = argparse.ArgumentParser()
    ap.add_argument('seed_dir')
    ap.add_argument('--props')
    ap.add_argument('--runs', type=int)
    ap.add_argument('--no-tests', action='store_true')
    ap.add_argument('--no-demo', action='store_true')
    ap.add_argument('--thorough-cap', type=float)
    a = ap.parse_args()
    d = os.path.abspath(a.seed_dir)
    meta = json.load(open(os.path.join(d, 'meta.json')))
    prop = meta.get('property') or meta.get('breaks_property') or meta.get('breaks')
    out = {'seed': d, 'property': prop}
    scratch = tempfile.mkdtemp(prefix='seedrun_', dir='/tmp')
    try:
        rc, o = sh('rsync -a --exclude .git --exclude "*.pyc" --exclude __pycache__ /repo/ %s/'
                   % scratch)
        rc, o = sh('patch -p1 --no-backup-if-mismatch -F3 < %s/patch.diff' % d, cwd=scratch)
        out['applies'] = rc == 0
        if rc != 0:
            out['apply_log'] = o[-600:]
            print(json.dumps(out))
            return 1
        rc, o = sh('/venv/bin/python -c "import s3transfer, s3transfer.manager, '
                   's3transfer.processpool"', cwd=scratch)
        out['imports'] = rc == 0
        if not a.no_tests:
            # (the suite has sleep-based tests - TestBoundedExecutor - that fail on
            # the unchanged tree too when the machine is loaded: up to 3 attempts)
            for attempt in range(3):
                rc, o = sh('/venv/bin/python -m pytest tests/unit tests/functional -q '
                           '-p no:cacheprovider --timeout=900 -x 2>&1 | tail -3', cwd=scratch)
                out['tests_pass'] = ' passed' in o and 'failed' not in o and \
                    'error' not in o.lower()
                if out['tests_pass']:
                    break
            out['tests_tail'] = o.strip().splitlines()[-1][:200] if o.strip() else ''
        demo = os.path.join(d, 'demo.py')
        if os.path.exists(demo) and not a.no_demo:
            rc1, o1 = sh('timeout 300 /venv/bin/python %s' % demo, cwd=scratch)
            rc0, o0 = sh('timeout 300 /venv/bin/python %s' % demo, cwd='/repo')
            out['demo_fails_with_change'] = rc1 != 0
            out['demo_passes_without'] = rc0 == 0
            if rc0 != 0:
                out['demo_clean_log'] = o0[-400:]
        props = a.props.split(',') if a.props else [prop]
        env = dict(os.environ, VERIF_REPO=scratch)
        res = {}
        for p in props:
            cmd = '%s/bin/check %s' % (VERIF, p)
            if a.runs:
                cmd += ' --runs %d' % a.runs
            if a.thorough_cap:
                cmd += ' --tier thorough --cap %g' % a.thorough_cap
            rc, o = sh(cmd, cwd=VERIF, env=env, timeout=3000)
            viol = [ln for ln in o.splitlines() if ln.startswith('VIOLATION')]
            detail = [ln.strip() for ln in o.splitlines() if ln.startswith('  engine=')]
            res[p] = {'rc': rc, 'violations': len(viol), 'detail': [x[:260] for x in detail[:3]]}
            try:
                ev = json.load(open(os.path.join(VERIF, 'evidence', '%s.json' % p)))
                cross = {}
                for st in ev['coverage'].get('stages', []):
                    for k, n in (st.get('cross_hits_other_properties') or {}).items():
                        cross[k] = cross.get(k, 0) + n
                res[p]['cross_hits'] = cross
            except Exception:
                pass
            if rc == 2:
                res[p]['harness'] = [ln for ln in o.splitlines() if 'HARNESS' in ln][:1]
        out['checks'] = res
        out['detected'] = any(v['rc'] == 1 for v in res.values())
        print(json.dumps(out))
        return 0
    finally:
        shutil.rmtree(scratch, ignore_errors=True)
        # evidence files were rewritten by runs against the scratch copy
        sh('git checkout -- evidence', cwd=VERIF)


if __name__ == '__main__':
    sys.exit(main())
