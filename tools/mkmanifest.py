import json
claimed = {
 'C01': ('world', 'seeded schedule + client-retry (body rewind) search over real TransferManager uploads/copies against SimS3; object-equality and MPU-log oracle'),
 'C02': ('world', 'seeded schedule + stream-fault search over real TransferManager downloads (4 destination kinds) against SimS3/SimFS; byte-equality oracle'),
 'C03': ('world', 'seeded single/pair fault injection at logical call sites under seeded schedules; identity oracle on the raised exception'),
 'C04': ('world', 'seeded schedule search (random, sticky, PCT, starvation) at limits of 1 with faults, cancels and re-entrant callbacks; deadlock = no runnable simulated thread'),
 'C05': ('world', 'seeded fault/cancel search over multipart uploads and copies; oracle over SimS3 per-upload begin/end log'),
 'C06': ('world', 'SimFS namespace invariant evaluated after every file-system mutation (crash points) under seeded faults, cancels and schedules'),
 'C07': ('world+coord', 'cancel through 4 entry points at a seeded step or at a state trigger, with an atomic status snapshot; outcome/message/no-request/cleanup oracle; focused stage: the coordinator with a thread blocked in result() while cancels race the final task under statement-level pre-emption'),
 'C08': ('world', 'stamped subscriber-callback log versus SimS3 request log under seeded schedules, faults and cancels'),
 'C09': ('world', 'progress prefix-sum oracle under seeded body rewinds, signing reads, stream retries and aggregation thresholds'),
 'C10': ('world', 'in-flight request and executor-occupancy counters checked at every begin event under seeded schedules and virtual latency'),
 'C11': ('world', 'buffer/window/io-queue counters (under-approximations) checked at every event under starvation schedules and latency skew'),
 'C18': ('world', 'shutdown barrier by kernel sequence stamps; per-transfer isolation oracles in mixed runs; fresh transfer after the mix'),
}
na = {
 'C14': 'pure function of (size, threshold, chunksize): no schedule, clock, fault or interleaving can change the planned ranges; enumerating that domain is input generation / bounded model checking, not simulation (DESIGN.md section 6, C14)',
 'C15': 'pure finite relation between argument names, mode and botocore operation input shapes; decided by table enumeration, outside this technique family (DESIGN.md section 6, C15)',
}
pending = {
 'C12': 'check under construction (focused semaphore engine not yet committed)',
 'C13': 'check under construction (virtual-time bandwidth engine not yet committed)',
 'C16': 'check under construction (focused defer-queue engine not yet committed)',
 'C17': 'check under construction (focused coordinator engine not yet committed)',
 'C19': 'check under construction (process-pool in-process engine not yet committed)',
 'C20': 'check under construction (CRT stub engine not yet committed)',
}
import os
import sys
_default = os.path.join(os.path.dirname(os.path.abspath(__file__)), 'claims.json')
_claims = sys.argv[1] if len(sys.argv) > 1 else (_default if os.path.exists(_default) else None)
if _claims:
    extra = json.load(open(_claims))
    for k, v in extra.get('claimed', {}).items():
        claimed[k] = tuple(v); pending.pop(k, None)
checks = []
for pid, (eng, tech) in sorted(claimed.items()):
    checks.append({
        'property_id': pid,
        'quick_cmd': 'bin/check %s --tier quick' % pid,
        'thorough_cmd': 'bin/check %s --tier thorough' % pid,
        'evidence_file': 'evidence/%s.json' % pid,
        'replay_cmd_template': 'bin/check --replay {path}',
        'engine': eng,
        'level_claimed': {'category': 'exploration',
                          'text': 'Seeded search over schedules and fault sequences of the real s3transfer code inside a deterministic simulator: every run is one exactly replayable execution; a clean batch is evidence, not proof.',
                          'design_ref': 'DESIGN.md section 6 (%s)' % pid},
        'level_note': 'Trusted base: the simulator kernel (baton-passing threads, SimLock), the stubs (SimS3/SimFS/streams, modelled from botocore source) and the oracles in simv/. Pre-emption at synchronisation points (before an acquire, before and after a release), I/O, callback and stub points, plus statement-level pre-emption inside s3transfer code in a fraction of the runs; threads can be stalled and file-system calls slowed for a virtual duration. Checked against 225 independently seeded breaking changes (seeded/, 224 detected, see DESIGN section 12) and 20 behaviour-preserving refactorings (benign/).',
        'technique': 'deterministic simulation with fault injection: ' + tech,
    })
m = {
 'version': 1,
 'setup_cmd': 'bin/setup',
 'hooks': {'guard': 'BOTO_S3TRANSFER_VERIF', 'enable': 'no source hooks are needed: all seams are harness-side rebinding of module globals and constructor parameters (simv/seams.py); the guard name is reserved only',
           'baseline_off_cmd': 'cd /repo && /venv/bin/python -m pytest -ra -q -p no:cacheprovider --timeout=900 --continue-on-collection-errors',
           'source_commits': [], 'add_only': True},
 'engines': [
   {'name': 'world', 'path': 'simv/world.py', 'serves_properties': sorted(k for k, v in claimed.items() if 'world' in v[0]),
    'kind_free_text': 'real TransferManager + real stdlib threading/futures source on a simulated _thread, against SimS3/SimFS, one PRNG decides every interleaving and fault'},
   {'name': 'sem', 'path': 'simv/focus_sem.py', 'serves_properties': ['C12'], 'kind_free_text': 'focused concurrent programs on the real semaphores + linearizability check'},
   {'name': 'coord', 'path': 'simv/focus_coord.py', 'serves_properties': ['C17'], 'kind_free_text': 'focused concurrent programs on the real TransferCoordinator/TransferFuture + linearizability check'},
   {'name': 'defer', 'path': 'simv/focus_defer.py', 'serves_properties': ['C16'], 'kind_free_text': 'seeded delivery histories into the real DeferQueue/non-seekable output manager'},
   {'name': 'bw', 'path': 'simv/focus_bw.py', 'serves_properties': ['C13'], 'kind_free_text': 'virtual-time simulation of the real leaky-bucket bandwidth limiter'},
   {'name': 'pp', 'path': 'simv/ppworld.py', 'serves_properties': ['C19', 'C02', 'C06'], 'kind_free_text': 'in-process replay of the process-pool downloader protocol'},
   {'name': 'legacy', 'path': 'simv/legacyworld.py', 'serves_properties': ['C01', 'C02', 'C05', 'C06'], 'kind_free_text': 'real legacy S3Transfer upload_file/download_file against SimS3/SimFS'},
   {'name': 'crt', 'path': 'simv/crtworld.py', 'serves_properties': ['C20'], 'kind_free_text': 'real crt.py against a stub awscrt (SimCRT)'},
   {'name': 'kernel', 'path': 'simv/kernel.py', 'serves_properties': sorted(claimed), 'kind_free_text': 'deterministic scheduler: baton-passing real threads, SimLock, virtual time, seeded choosers, replay'},
 ],
 'checks': checks,
 'notes': 'exit 2 = harness error (never a verdict). Known findings: known_findings.json. Replays of confirmed defects: findings/.',
 'not_applicable': [{'property_id': k, 'reason': v} for k, v in sorted({**na, **pending}.items())],
}
json.dump(m, open('/verif/MANIFEST.json', 'w'), indent=1)
