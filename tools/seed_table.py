#!/usr/bin/env python3
"""Regenerate the table of seeded changes in DESIGN.md (between the SEED-TABLE
markers) from seeded/*/meta.json."""
import glob, json, os, re
VERIF = os.path.dirname(os.path.dirname(os.path.abspath(__file__)))
rows = ['| id | change (short) | caught by (engine: class) | first evaluation | check strengthened |',
        '|---|---|---|---|---|']
n = 0
strengthened = 0
for d in sorted(glob.glob(os.path.join(VERIF, 'seeded', 'C*-*'))):
    m = json.load(open(os.path.join(d, 'meta.json')))
    n += 1
    sid = m['id']
    short = ' '.join((m.get('summary') or '').split())[:150].replace('|', '/')
    own = m['breaks_property']
    by = []
    for p, v in (m.get('detected_by') or {}).items():
        if v.get('exit') == 1:
            mm = re.search(r'engine=(\S+) class=(\S+)', v.get('first', ''))
            by.append('%s (%s: %s)' % (p, mm.group(1), mm.group(2)) if mm else p)
    fe = m.get('first_evaluation') or {}
    fes = ', '.join('%s exit %s' % (p, v.get('exit')) for p, v in fe.items())
    note = m.get('note') or ''
    st = 'yes' if (any(w in note for w in ('trengthen', 'needed', 'extended', 'added after', 'missed', 'exit 2')) or any(v.get('exit') != 1 for v in fe.values())) else ''
    strengthened += bool(st)
    rows.append('| %s | %s | %s | %s | %s |' % (sid, short, '; '.join(by) or '**missed**', fes, st))
path = os.path.join(VERIF, 'DESIGN.md')
t = open(path).read()
a, b = '<!-- SEED-TABLE-BEGIN -->', '<!-- SEED-TABLE-END -->'
i, j = t.index(a), t.index(b)
t = t[:i + len(a)] + '\n' + '\n'.join(rows) + '\n' + t[j:]
open(path, 'w').write(t)
print(n, 'seeds,', strengthened, 'needed strengthening')
