#!/usr/bin/env python3
"""Re-run, with the machinery as it is now, the check of each seeded change's own
property (quick budget) against a scratch copy with the change applied; update
seeded/<id>/meta.json (detected, detected_by) and write seeded/MATRIX.json, which
also records the other properties whose oracles fired in those same runs
(cross-hits)."""
import json, os, subprocess, sys
VERIF = os.path.dirname(os.path.dirname(os.path.abspath(__file__)))
matrix = {}
ids = sorted(d for d in os.listdir(os.path.join(VERIF, 'seeded')) if os.path.isdir(os.path.join(VERIF, 'seeded', d)))
only = sys.argv[1:]
for sid in ids:
    if only and sid not in only:
        continue
    d = os.path.join(VERIF, 'seeded', sid)
    p = subprocess.run([sys.executable, os.path.join(VERIF, 'tools', 'try_seed.py'), d, '--no-tests', '--no-demo'],
                       capture_output=True, text=True, timeout=3600)
    line = [l for l in p.stdout.splitlines() if l.startswith('{')]
    if not line:
        print(sid, 'ERROR', p.stdout[-300:], p.stderr[-300:]); continue
    r = json.loads(line[-1])
    m = json.load(open(os.path.join(d, 'meta.json')))
    m['detected'] = bool(r.get('detected'))
    m['detected_by'] = {k: {'exit': v['rc'], 'violations_reported': v['violations'],
                            'first': (v['detail'] or [''])[0],
                            'cross_hits_of_other_properties': v.get('cross_hits', {})}
                        for k, v in r.get('checks', {}).items()}
    json.dump(m, open(os.path.join(d, 'meta.json'), 'w'), indent=1)
    own = m['breaks_property']
    row = {own: 'VIOLATION' if m['detected'] else 'missed'}
    for k, v in r.get('checks', {}).items():
        for ck, n in (v.get('cross_hits') or {}).items():
            row.setdefault(ck.split('/')[0], 'oracle fired (cross-hit in %s runs)' % k)
    matrix[sid] = row
    print(sid, row, flush=True)
mfile = os.path.join(VERIF, 'seeded', 'MATRIX.json')
if only and os.path.exists(mfile):
    # partial re-evaluation: the other rows keep their last verdict
    old = json.load(open(mfile))
    old.update(matrix)
    matrix = old
json.dump(matrix, open(mfile, 'w'), indent=1, sort_keys=True)
