"""User-side objects: source and destination streams, recording subscribers."""
import io

from .faults import make_exc


class SeekableSource:
    """A seekable, readable user stream positioned at `offset`."""

    def __init__(self, world, tidx, data, offset, short=False):
        self.world = world
        self.tidx = tidx
        self._data = data
        self._pos = offset
        self._short = short
        self.start = offset
        self.ops = []          # (stamp, tid, op, pos, n)
        self._inside = 0
        self.overlaps = 0
        self.out_of_range = 0

    def _enter(self):
        if self._inside:
            self.overlaps += 1
        self._inside += 1

    def readable(self):
        return True

    def seekable(self):
        return True

    def read(self, n=-1):
        w = self.world
        self._enter()
        try:
            w.sim.spoint('src.read')
            f = w.faults.hit('src', t=self.tidx)
            if f is not None:
                exc = make_exc(f['exc'], f['id'])
                w.faults.record(f, exc, w.sim.stamp(), t=self.tidx)
                raise exc
            read_all = n is None or n < 0
            if read_all:
                n = len(self._data) - self._pos
            n = min(n, len(self._data) - self._pos)
            if self._short and n > 1 and not read_all:
                # a raw stream may return fewer bytes than asked for
                k = w.sim.choose(3, 'srcshort')
                if k == 1:
                    n = max(1, n // 2)
                elif k == 2:
                    n = n - 1
            out = self._data[self._pos:self._pos + n]
            self.ops.append((w.sim.stamp(), w.sim.current.tid, 'read',
                             self._pos, len(out)))
            w.on_source_read(self.tidx, self._pos, len(out))
            self._pos += len(out)
            return out
        finally:
            self._inside -= 1

    def seek(self, where, whence=0):
        self._enter()
        try:
            if whence == 0:
                p = where
            elif whence == 1:
                p = self._pos + where
            else:
                p = len(self._data) + where
            if p < self.start:
                self.out_of_range += 1
            self._pos = max(p, 0)
            self.ops.append((self.world.sim.stamp(),
                             self.world.sim.current.tid, 'seek', self._pos, 0))
            return self._pos
        finally:
            self._inside -= 1

    def tell(self):
        return self._pos

    def close(self):
        self.ops.append((self.world.sim.stamp(), self.world.sim.current.tid,
                         'close', self._pos, 0))


class DuckSeekableSource:
    """The same stream as SeekableSource but duck-typed: read/seek/tell and no
    seekable()/readable() methods, so the library has to probe it."""
    __init__ = SeekableSource.__init__
    _enter = SeekableSource._enter
    read = SeekableSource.read
    seek = SeekableSource.seek
    tell = SeekableSource.tell
    close = SeekableSource.close


class WrappedFileSource(SeekableSource):
    """A seekable stream LAYERED over an operating-system file, as gzip.GzipFile,
    bz2.BZ2File or a codec reader are: read/seek/tell work in the stream's own
    (logical) positions while fileno() names the underlying file, whose size
    and offsets are unrelated to them."""

    def __init__(self, world, tidx, data, offset, short=False):
        SeekableSource.__init__(self, world, tidx, data, offset, short)
        fs = world.fs
        raw = '/d/raw%d' % tidx
        # the "compressed" file underneath: a different length from the stream
        node = fs.files.setdefault(raw, bytearray(b'\x1f' * (len(data) // 3 + 2)))
        from .fs import SimFile
        self._rawfile = SimFile(fs, raw, 'rb', node)

    def fileno(self):
        return self._rawfile.fileno()


class NonSeekableSource:
    """A readable stream without seek/tell (a pipe)."""

    def __init__(self, world, tidx, data, short=False):
        self.world = world
        self.tidx = tidx
        self._data = data
        self._pos = 0
        self._short = short
        self.ops = []

    def readable(self):
        return True

    def read(self, n=-1):
        w = self.world
        w.sim.spoint('src.read')
        f = w.faults.hit('src', t=self.tidx)
        if f is not None:
            exc = make_exc(f['exc'], f['id'])
            w.faults.record(f, exc, w.sim.stamp(), t=self.tidx)
            raise exc
        rem = len(self._data) - self._pos
        read_all = n is None or n < 0
        if read_all:
            n = rem
        n = min(n, rem)
        # read() without a size reads to EOF; only sized reads may be short
        if self._short and n > 1 and not read_all:
            k = w.sim.choose(3, 'srcshort')
            if k == 1:
                n = max(1, n // 2)
            elif k == 2:
                n = n - 1
        out = self._data[self._pos:self._pos + n]
        self.ops.append((w.sim.stamp(), w.sim.current.tid, 'read', self._pos,
                         len(out)))
        w.on_source_read(self.tidx, self._pos, len(out))
        self._pos += len(out)
        return out


class SeekableDest:
    def __init__(self, world, tidx, initial=b''):
        self.world = world
        self.tidx = tidx
        self.buf = bytearray(initial)
        self._pos = 0
        self.writes = []       # (stamp, tid, offset, len)
        self._inside = 0
        self.overlaps = 0

    def seekable(self):
        return True

    def seek(self, where, whence=0):
        if whence == 0:
            self._pos = where
        elif whence == 1:
            self._pos += where
        else:
            self._pos = len(self.buf) + where
        return self._pos

    def tell(self):
        return self._pos

    def write(self, data):
        w = self.world
        if self._inside:
            self.overlaps += 1
        self._inside += 1
        try:
            w.sim.spoint('dst.write')
            w.fs._lat('write', None, not getattr(self, '_wrote', False))
            self._wrote = True
            f = w.faults.hit('dst', t=self.tidx)
            if f is not None:
                exc = make_exc(f['exc'], f['id'])
                w.faults.record(f, exc, w.sim.stamp(), t=self.tidx)
                raise exc
            end = self._pos + len(data)
            if self._pos > len(self.buf):
                self.buf.extend(b'\0' * (self._pos - len(self.buf)))
            self.buf[self._pos:end] = data
            self.writes.append((w.sim.stamp(), w.sim.current.tid, self._pos,
                                len(data)))
            w.on_dest_write(self.tidx, self._pos, len(data))
            self._pos = end
            return len(data)
        finally:
            self._inside -= 1


class DuckSeekableDest:
    """SeekableDest without a seekable() method (probed through seek/tell)."""
    __init__ = SeekableDest.__init__
    seek = SeekableDest.seek
    tell = SeekableDest.tell
    write = SeekableDest.write


class NonSeekableDest:
    """write() only; records every write with its stamp and thread."""

    def __init__(self, world, tidx):
        self.world = world
        self.tidx = tidx
        self.chunks = []       # (stamp, tid, bytes)
        self.total = 0
        self._inside = 0
        self.overlaps = 0

    def write(self, data):
        w = self.world
        if self._inside:
            self.overlaps += 1
        self._inside += 1
        try:
            w.sim.spoint('dst.write')
            w.fs._lat('write', None, not getattr(self, '_wrote', False))
            self._wrote = True
            f = w.faults.hit('dst', t=self.tidx)
            if f is not None:
                exc = make_exc(f['exc'], f['id'])
                w.faults.record(f, exc, w.sim.stamp(), t=self.tidx)
                if isinstance(exc, BlockingIOError) and len(data) > 1:
                    # partial write: the first k bytes went out before the pipe
                    # was full
                    k = 1 + f.get('partial', 0) % (len(data) - 1)
                    exc.characters_written = k
                    self.chunks.append((w.sim.stamp(), w.sim.current.tid, bytes(data[:k]),
                                        'partial'))
                    w.on_dest_write(self.tidx, None, k)
                raise exc
            self.chunks.append((w.sim.stamp(), w.sim.current.tid, bytes(data)))
            w.on_dest_write(self.tidx, self.total, len(data))
            self.total += len(data)
            return len(data)
        finally:
            self._inside -= 1

    def content(self):
        return b''.join(c[2] for c in self.chunks)


def make_subscriber_cls():
    from s3transfer.subscribers import BaseSubscriber

    class RecordingSubscriber(BaseSubscriber):
        """Stamps every callback; optional behaviours (see world scenario
        docs): provide_size, raise in queued/progress/done, re-enter future."""

        def __init__(self, world, tidx, sidx, spec):
            self.world = world
            self.tidx = tidx
            self.sidx = sidx
            self.spec = spec or {}
            self.progress_calls = 0

        def _reenter(self, where, future):
            r = self.spec.get('reenter')
            if not r or r.get('in') != where:
                return
            w = self.world
            what = r['call']
            w.probe('reenter.%s.%s' % (where, what))
            if what == 'done':
                future.done()
            elif what == 'meta':
                future.meta.size
                future.meta.call_args
            elif what == 'result':
                try:
                    future.result()
                except BaseException:   # noqa
                    pass
            elif what == 'cancel':
                w.dirty = True
                future.cancel()
            elif what == 'set_exception':
                w.dirty = True
                try:
                    future.set_exception(make_exc('simfault', 'reenter-%d' % self.tidx))
                except Exception:
                    pass

        def on_queued(self, future, **kwargs):
            w = self.world
            w.sim.spoint('cb.queued')
            t = w.transfers[self.tidx]
            t['callbacks'].append((w.sim.stamp(), 'queued', self.sidx,
                                   w.sim.current.tid, None,
                                   len(w.s3.log)))
            size = self.spec.get('provide_size')
            if size is not None:
                future.meta.provide_transfer_size(size)
            self._reenter('queued', future)
            f = w.faults.hit('cb', t=self.tidx, kind='queued', sub=self.sidx)
            if f is not None:
                exc = make_exc(f['exc'], f['id'])
                w.faults.record(f, exc, w.sim.stamp(), t=self.tidx, kind='queued')
                raise exc

        def on_progress(self, future, bytes_transferred, **kwargs):
            w = self.world
            w.sim.spoint('cb.progress')
            t = w.transfers[self.tidx]
            t['callbacks'].append((w.sim.stamp(), 'progress', self.sidx,
                                   w.sim.current.tid, bytes_transferred, None))
            self.progress_calls += 1
            self._reenter('progress', future)
            f = w.faults.hit('cb', t=self.tidx, kind='progress', sub=self.sidx)
            if f is not None:
                exc = make_exc(f['exc'], f['id'])
                w.faults.record(f, exc, w.sim.stamp(), t=self.tidx, kind='progress')
                raise exc

        def on_done(self, future, **kwargs):
            w = self.world
            w.sim.spoint('cb.done')
            t = w.transfers[self.tidx]
            coord = future._coordinator
            info = {'done': future.done(),
                    'event_set': getattr(getattr(coord, '_done_event', None), 'is_set', lambda: None)(),
                    'status': coord.status,
                    'exception': coord._exception,
                    'open_requests': w.open_requests_of(self.tidx),
                    'fs_mut': w.fs.mutations}
            t['callbacks'].append((w.sim.stamp(), 'done', self.sidx,
                                   w.sim.current.tid, None, info))
            if t.get('natural') is None:
                # the library's own verdict, before any user set_exception()
                t['natural'] = (info['status'], info['exception'])
            self._reenter('done', future)
            f = w.faults.hit('cb', t=self.tidx, kind='done', sub=self.sidx)
            if f is not None:
                exc = make_exc(f['exc'], f['id'])
                w.faults.record(f, exc, w.sim.stamp(), t=self.tidx, kind='done')
                raise exc

    class AdapterSubscriber(BaseSubscriber):
        """The same subscriber in 'adapter' shape: a plain BaseSubscriber whose
        callbacks are bound on the INSTANCE (self.on_done = fn), as code that
        wraps plain functions into a subscriber does; the class itself
        overrides nothing."""

        def __init__(self, world, tidx, sidx, spec):
            inner = RecordingSubscriber(world, tidx, sidx, spec)
            self.inner = inner
            self.spec = inner.spec
            self.on_queued = inner.on_queued
            self.on_progress = inner.on_progress
            self.on_done = inner.on_done

    RecordingSubscriber.Adapter = AdapterSubscriber
    return RecordingSubscriber
