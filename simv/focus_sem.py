"""C12 focused engine: the real SlidingWindowSemaphore / TaskSemaphore driven by
1-3 simulated threads running seeded programs; the recorded history is checked
for linearizability against a small reference model, plus liveness (nobody
stays blocked once every issued token has been released) and conservation
(capacity is back at the configured count at the end)."""
import random

from . import kernel, seams, simstd
from .gen import gen_strategy
from .lin import linearizable

NAME = 'sem'
PROPS = ('C12',)
REAL = ['s3transfer.utils.SlidingWindowSemaphore', 's3transfer.utils.TaskSemaphore',
        'stdlib threading.Condition/Semaphore source (on simulated _thread)']
STUB = ['OS scheduler (kernel)', 'callers: seeded operation programs']
RULE = ('one evaluation = one seeded concurrent program over 1-2 semaphores (1-3 threads x 3-8 semaphore '
        'operations over <=3 tags, capacity 1-3) run under a seeded schedule and checked '
        'against the reference model by Wing-Gong search; distinct = distinct trace digest; '
        'non-trivial = >=2 threads were runnable at some point AND (some acquire blocked OR '
        'some release was out of order OR an invalid release was rejected)')
ASSUMPTIONS = ['double release of the same token is outside the statement and not generated',
               'pre-emption at lock/condition operations (every shared access of the '
               'semaphores is under their lock)']


def generate(prop, seed):
    rng = random.Random(seed)
    kind = 'sliding' if rng.random() < 0.8 else 'task'
    nthreads = rng.choice([1, 2, 2, 3, 3])
    cap = rng.choice([1, 1, 2, 2, 3, 4, 5])
    tags = ['a', 'b', 'c'][:rng.choice([1, 1, 2, 3])]
    progs = []
    for _ in range(nthreads):
        p = []
        for _ in range(rng.randint(3, 8) + (cap if cap > 3 else 0)):
            r = rng.random()
            if r < 0.35:
                p.append(['acq', rng.choice(tags), True])
            elif r < 0.5:
                p.append(['acq', rng.choice(tags), False])
            elif r < 0.8:
                # release a token somebody holds: index into the shared pool,
                # policy decides low/high/any
                p.append(['rel', rng.choice(['low', 'high', 'any']), rng.randrange(8)])
            elif r < 0.86 and kind == 'sliding':
                p.append(['rel_unknown_tag', 'zz'])
            elif r < 0.92 and kind == 'sliding':
                p.append(['rel_never_issued', rng.choice(tags), rng.randint(0, 3)])
            else:
                p.append(['count'])
        progs.append(p)
    nsems = 2 if rng.random() < 0.25 else 1
    if nsems == 2:
        # two independent semaphores in one process (two managers): nothing
        # done to one may help or harm the other; every op names its semaphore
        for p in progs:
            for op in p:
                op.append(rng.randrange(2))
    sc = {'kind': kind, 'cap': cap, 'programs': progs, 'tags': tags, 'nsems': nsems,
          'drain': rng.choice(['low', 'high', 'any']),
          'strategy': gen_strategy(rng, 120), 'sched_seed': rng.randrange(1 << 62),
          'seed': seed, 'prop': prop}
    return sc


# ---- reference model ----------------------------------------------------------
# state: (cap, ((tag, next, lowest, frozenset(released)), ...)) sorted by tag

def _model_step(kind):
    def step(state, op, args):
        cap, tags = state
        d = {t: (n, lo, rel) for (t, n, lo, rel) in tags}
        free = cap - sum(n - lo for (n, lo, rel) in d.values())
        if op == 'acq':
            tag, blocking = args
            if free <= 0:
                if blocking:
                    return None            # must wait
                return state, ('exc', 'NoResourcesAvailable')
            n, lo, rel = d.get(tag, (0, 0, frozenset()))
            d[tag] = (n + 1, lo, rel)
            res = ('ok', n if kind == 'sliding' else None)
            return (cap, _pack(d)), res
        if op == 'rel':
            tag, tok = args
            if tag not in d:
                return state, ('exc', 'ValueError')
            n, lo, rel = d[tag]
            if tok == lo and lo < n:
                lo += 1
                rel = set(rel)
                while lo in rel:
                    rel.discard(lo)
                    lo += 1
                d[tag] = (n, lo, frozenset(rel))
                return (cap, _pack(d)), ('ok', None)
            if lo < tok < n and tok not in rel:
                d[tag] = (n, lo, frozenset(set(rel) | {tok}))
                return (cap, _pack(d)), ('ok', None)
            return state, ('exc', 'ValueError')
        if op == 'count':
            return state, ('ok', free)
        raise ValueError(op)
    return step


def _pack(d):
    return tuple(sorted((t, n, lo, rel) for t, (n, lo, rel) in d.items()))


def _task_step(state, op, args):
    # plain counting semaphore: state = free permits
    if op == 'acq':
        tag, blocking = args
        if state <= 0:
            if blocking:
                return None
            return state, ('exc', 'NoResourcesAvailable')
        return state - 1, ('ok', None)
    if op == 'rel':
        return state + 1, ('ok', None)
    raise ValueError(op)


# ---- execution --------------------------------------------------------------------

def execute(sc, choices=None, lenient=False):
    seams.install()
    from s3transfer.utils import SlidingWindowSemaphore, TaskSemaphore
    th = simstd.simthreading
    if choices is not None:
        chooser = kernel.ReplayChooser(choices, lenient=lenient)
    else:
        chooser = kernel.RandomChooser(sc['sched_seed'], tuple(sc['strategy']))
    sim = kernel.Sim(chooser, max_steps=20000)
    kind = sc['kind']
    cap = sc['cap']
    nsems = sc.get('nsems', 1)
    hist = []
    pool = []          # tokens held: (semaphore index, tag, token)
    violations = []
    info = {'blocked': 0, 'ooo': 0, 'rejected': 0}
    finished = []
    sems = []
    waiting = {}
    nonblocking = {}
    stuck_early = []

    def record(op, args, fn):
        h = {'inv': sim.stamp(), 'ret': None, 'op': op, 'args': args,
             'res': None, 'tid': sim.current.tid}
        hist.append(h)
        try:
            v = fn()
            h['res'] = ('ok', v)
        except kernel.SimAbort:
            raise
        except Exception as e:   # noqa
            h['res'] = ('exc', type(e).__name__)
        h['ret'] = sim.stamp()
        return h

    def pick(policy, idx, si=None):
        cand = [x for x in pool if si is None or x[0] == si]
        if not cand:
            return None
        if policy == 'any':
            x = cand[idx % len(cand)]
            pool.remove(x)
            return x
        # low / high within a (semaphore, tag) chosen by idx
        groups = sorted({(s, t) for s, t, _ in cand})
        s, tag = groups[idx % len(groups)]
        toks = sorted(k for s2, t, k in cand if (s2, t) == (s, tag))
        tok = toks[0] if policy == 'low' else toks[-1]
        pool.remove((s, tag, tok))
        return (s, tag, tok)

    def release(x):
        si, tag, tok = x
        sem = sems[si]
        record('rel', (si, tag, tok if kind == 'sliding' else None),
               lambda: sem.release(tag, tok))

    def main():
        for _ in range(nsems):
            sems.append(SlidingWindowSemaphore(cap) if kind == 'sliding' else TaskSemaphore(cap))

        def worker(prog, wi):
            for op in prog:
                si = op[-1] if nsems == 2 else 0
                sem = sems[si]
                if op[0] == 'acq':
                    tag, blocking = op[1], op[2]
                    waiting[wi] = si
                    if not blocking:
                        nonblocking[wi] = (si, tag)
                    h = record('acq', (si, tag, blocking),
                               lambda: sem.acquire(tag, blocking))
                    waiting.pop(wi, None)
                    nonblocking.pop(wi, None)
                    if h['res'][0] == 'ok':
                        pool.append((si, tag, h['res'][1] if kind == 'sliding' else len(hist)))
                elif op[0] == 'rel':
                    x = pick(op[1], op[2], si)
                    if x is None:
                        continue
                    _, tag, tok = x
                    if kind == 'sliding':
                        lows = [k for s2, t, k in pool if s2 == si and t == tag and k < tok]
                        if lows:
                            info['ooo'] += 1
                    release(x)
                elif op[0] == 'rel_unknown_tag':
                    record('rel', (si, op[1], 0), lambda: sem.release(op[1], 0))
                    info['rejected'] += 1
                elif op[0] == 'rel_never_issued':
                    tag = op[1]
                    # a token that cannot have been issued: far above any next
                    tok = 1000 + op[2]
                    record('rel', (si, tag, tok), lambda: sem.release(tag, tok))
                    info['rejected'] += 1
                elif op[0] == 'count' and kind == 'sliding':
                    record('count', (si,), sem.current_count)
            finished.append(wi)

        threads = [th.Thread(target=worker, args=(p, i))
                   for i, p in enumerate(sc['programs'])]
        for t in threads:
            t._sim_role = 'worker'
            t.start()
        # drain: whenever everybody else is stuck, release one held token
        drain = sc['drain']
        k = 0
        while True:
            sim.wait_until_step(10 ** 9)      # returns when nothing else can run
            if len(finished) == len(threads):
                break
            # quiescent: whoever is still inside acquire() of a semaphore none
            # of whose tokens is held any more has lost its wake-up (semaphores
            # are independent: what happens to another one must not matter)
            if nonblocking:
                # nothing can run and a thread is still inside acquire(blocking=
                # False): it is WAITING, where it had to raise or return
                wi = sorted(nonblocking)[0]
                violations.append(['C12', 'nonblocking-acquire-waits',
                                   'acquire(%r, blocking=False) is waiting for capacity instead '
                                   'of raising NoResourcesAvailable' % (nonblocking[wi][1],), {}])
                stuck_early.append(1)
                break
            lost = [wi for wi, si in sorted(waiting.items())
                    if not any(x[0] == si for x in pool)]
            if lost and pool:
                violations.append(['C12', 'acquirer-blocked-forever',
                                   '%d thread(s) blocked in acquire of a semaphore all of whose '
                                   'issued tokens have been released (tokens of another '
                                   'semaphore are still held)' % len(lost), {}])
                stuck_early.append(1)
                break
            if not pool:
                break
            info['blocked'] += 1
            x = pick(drain, k)
            k += 1
            release(x)
        stuck = len(threads) - len(finished)
        if stuck and not stuck_early:
            violations.append(['C12', 'acquirer-blocked-forever',
                               '%d thread(s) still blocked in acquire although every '
                               'issued token has been released' % stuck, {}])
            return
        if stuck_early:
            return
        for t in threads:
            t.join()
        # release whatever is still held, then capacity must be back
        while pool:
            release(pick('low', 0))
        for si, sem in enumerate(sems):
            if kind == 'sliding':
                c = sem.current_count()
            else:
                c = sem._semaphore._value
            if c != cap:
                violations.append(['C12', 'capacity-not-restored',
                                   'capacity %d after all tokens were released, configured %d'
                                   % (c, cap), {}])

    sim.run(main)
    simstd.reset_between_runs()
    from .world import collect_between_runs
    collect_between_runs()
    harness = []
    f = sim.failure
    if f is not None:
        if f[0] == 'deadlock' and not violations:
            violations.append(['C12', 'acquirer-blocked-forever',
                               'deadlock: ' + f[1], {}])
        elif f[0] == 'step-budget':
            violations.append(['C12', 'livelock', f[1], {}])
        elif f[0] not in ('deadlock',):
            harness.append((f[0], f[1]))
    for e in sim.thread_errors:
        harness.append(('thread-exception', e[2]))
    # linearizability
    lin_nodes = 0
    if not harness:
        if kind == 'sliding':
            init1 = (cap, ())
            step1 = _model_step(kind)
        else:
            init1 = cap
            step1 = _task_step
        init = tuple(init1 for _ in range(nsems))

        def step(state, op, args):
            si = args[0]
            r = step1(state[si], op, tuple(args[1:]))
            if r is None:
                return None
            new, res = r
            return state[:si] + (new,) + state[si + 1:], res
        H = [dict(h) for h in hist]
        if kind != 'sliding':
            for h in H:
                if h['op'] == 'rel':
                    h['args'] = (h['args'][0], h['args'][1], None)
        try:
            ok, order, lin_nodes = linearizable(H, init, step)
        except RuntimeError as e:
            harness.append(('lin-budget', str(e)))
            ok = True
        if not ok:
            violations.append(['C12', 'not-linearizable',
                               'history has no sequential explanation in the reference '
                               'model: %s' % _fmt(hist), {}])
    nontrivial = sim.multi_points >= 1 and (
        info['blocked'] > 0 or info['ooo'] > 0 or info['rejected'] > 0)
    return {
        'steps': sim.steps, 'switches': sim.switches, 'digest': sim.digest,
        'multi_points': sim.multi_points, 'sim_time': 0.0,
        'violations': violations, 'harness': harness,
        'fault_kinds': {'blocked-acquire': [info['blocked'], info['blocked']],
                        'out-of-order-release': [info['ooo'], info['ooo']],
                        'invalid-release': [info['rejected'], info['rejected']]},
        'probes': {'lin_nodes': lin_nodes, 'history_events': len(hist)},
        'nontrivial': nontrivial, 'states': [], 'trace': sim.trace,
        'strategy': sc['strategy'][0], 'history': _fmt(hist),
    }


def _fmt(hist):
    return [(h['tid'], h['op'], list(h['args']), h['inv'], h['ret'],
             list(h['res']) if h['res'] else None) for h in hist]


def sample_of(sc, res):
    return {'kind': sc['kind'], 'capacity': sc['cap'], 'semaphores': sc.get('nsems', 1),
            'programs': sc['programs'],
            'drain': sc['drain'], 'strategy': sc['strategy'],
            'history': res['history'][:30], 'first_choices': res['trace'][:40]}


def shrink_candidates(sc):
    import copy
    for i in range(len(sc['programs'])):
        if len(sc['programs']) > 1:
            c = copy.deepcopy(sc)
            del c['programs'][i]
            yield c
    for i, p in enumerate(sc['programs']):
        for j in range(len(p)):
            c = copy.deepcopy(sc)
            del c['programs'][i][j]
            if c['programs'][i]:
                yield c
