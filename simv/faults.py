"""Explicit fault plans.  A fault is addressed by the *logical* identity of the
site (operation, key, part/range, attempt, occurrence), never by wall time or
global call order, so the same plan means the same thing under any schedule."""
import errno
import socket

from botocore.exceptions import (
    ClientError,
    IncompleteReadError,
    ReadTimeoutError,
    ResponseStreamingError,
)

RESERVED = {'site', 'nth', 'when', 'exc', 'at', 'id', 'amount', 'short', 'sticky', 'partial',
            'points', 'reenter', 'note'}


class SimFault(Exception):
    """A non-retryable failure injected by the simulator."""


RETRYABLE_KINDS = ('timeout', 'conn', 'readtimeout', 'incomplete', 'streaming')
FATAL_KINDS = ('client', 'value', 'simfault', 'eio', 'permission', 'runtime', 'kbi',
               'cancellederr')


def make_exc(kind, fid):
    if kind == 'client':
        e = ClientError({'Error': {'Code': 'InternalError',
                                   'Message': 'injected fault %s' % fid}},
                        'SimOp')
    elif kind == 'timeout':
        e = socket.timeout('injected %s' % fid)
    elif kind == 'conn':
        e = ConnectionResetError('injected %s' % fid)
    elif kind == 'readtimeout':
        e = ReadTimeoutError(endpoint_url='https://sim/%s' % fid)
    elif kind == 'incomplete':
        e = IncompleteReadError(actual_bytes=0, expected_bytes=1)
    elif kind == 'streaming':
        e = ResponseStreamingError(error='injected %s' % fid)
    elif kind == 'value':
        e = ValueError('injected %s' % fid)
    elif kind == 'oserror':
        e = OSError(errno.ENOSPC, 'injected %s' % fid)
    elif kind == 'brokenpipe':
        # what a pipe/FIFO/socket-backed destination raises; a ConnectionError,
        # i.e. the same family as the retryable *network* errors
        e = BrokenPipeError(errno.EPIPE, 'injected %s' % fid)
    elif kind == 'eio':
        e = OSError(errno.EIO, 'injected %s' % fid)
    elif kind == 'permission':
        # an OSError that is neither a ConnectionError nor a timeout
        e = PermissionError(errno.EACCES, 'injected %s' % fid)
    elif kind == 'blockingio':
        # a non-blocking pipe that is full: raised AFTER part of the data was
        # accepted (characters_written is filled in by the stream stub)
        e = BlockingIOError(errno.EAGAIN, 'injected %s' % fid, 0)
    elif kind == 'kbi':
        # Ctrl-C delivered while the main thread executes a request itself
        # (use_threads=False: everything runs on the caller's thread)
        e = KeyboardInterrupt('injected %s' % fid)
    elif kind == 'simfault':
        e = SimFault('injected %s' % fid)
    elif kind == 'runtime':
        e = RuntimeError('injected %s' % fid)
    elif kind == 'cancellederr':
        # a step of a transfer NOBODY cancelled raises the package's own
        # CancelledError (a callback or stream that relays the cancellation of
        # some other transfer): a failure like any other
        from s3transfer.exceptions import CancelledError
        e = CancelledError('injected %s' % fid)
    else:
        raise ValueError('unknown fault exception kind %r' % kind)
    e._sim_fault_id = fid
    return e


class FaultPlan:
    def __init__(self, specs, world=None):
        self.specs = []
        for i, s in enumerate(specs or []):
            s = dict(s)
            s.setdefault('id', i)
            s['_seen'] = 0
            s['_fired'] = 0
            self.specs.append(s)
        self.by_site = {}
        for s in self.specs:
            self.by_site.setdefault(s['site'], []).append(s)
        self.fired = []      # (fault id, exception object or None, stamp, info)
        self.world = world

    def hit(self, site, **attrs):
        """Return the spec that fires at this occurrence of the site, if any."""
        specs = self.by_site.get(site)
        if not specs:
            return None
        for s in specs:
            ok = True
            for k, v in s.items():
                if k in RESERVED or k.startswith('_'):
                    continue
                if attrs.get(k) != v:
                    ok = False
                    break
            if not ok:
                continue
            n = s['_seen']
            s['_seen'] = n + 1
            if n == s.get('nth', 0) and not s['_fired']:
                s['_fired'] = 1
                return s
        return None

    def peek(self, site, **attrs):
        """Specs matching the attrs irrespective of occurrence (for sites that
        carry their own position such as stream byte offsets)."""
        out = []
        for s in self.by_site.get(site, ()):
            ok = True
            for k, v in s.items():
                if k in RESERVED or k.startswith('_'):
                    continue
                if attrs.get(k) != v:
                    ok = False
                    break
            if ok:
                out.append(s)
        return out

    def record(self, spec, exc, stamp, **info):
        spec['_fired'] = 1
        if self.world is not None and exc is not None:
            self.world.dirty = True       # clean-so-far oracles stop here
        self.fired.append({'id': spec['id'], 'exc': exc, 'stamp': stamp,
                           'spec': spec, 'info': info})

    def summary(self):
        out = []
        for s in self.specs:
            d = {k: v for k, v in s.items() if not k.startswith('_')}
            d['fired'] = bool(s['_fired'])
            out.append(d)
        return out
