"""C17 focused engine: the real TransferCoordinator/TransferFuture driven by 1-3
simulated threads; the history is checked for linearizability against a
reference state machine, plus per-observer monotonicity of done() and the
agreement of status / exception / result() once done has been announced."""
import random

from . import kernel, seams, simstd
from .gen import gen_strategy
from .lin import linearizable

NAME = 'coord'
PROPS = ('C17', 'C07')
REAL = ['s3transfer.futures.TransferCoordinator', 's3transfer.futures.TransferFuture',
        'stdlib threading.Event/Lock source (on simulated _thread)']
STUB = ['OS scheduler (kernel)', 'callers: seeded operation programs']
RULE = ('one evaluation = one seeded concurrent program (1-3 threads x 3-8 public '
        'coordinator/future operations) under a seeded schedule, checked against the '
        'reference state machine by Wing-Gong search; distinct = distinct trace digest; '
        'non-trivial = >=2 threads were runnable at some point AND >=2 state-changing '
        'operations (result/exception/cancel) competed in the program')
ASSUMPTIONS = ['programs respect the library\'s own usage of the internal coordinator API: '
               'queued/running are issued once, in that order, by one thread; set_result '
               'is issued at most once (the final task)',
               'pre-emption at lock/event operations, not between the attribute '
               'assignments made under the coordinator lock']

DONE = ('success', 'failed', 'cancelled')
MUTATORS = ('set_result', 'set_exception', 'set_exception_override', 'cancel',
            'fut_set_exception')


def generate(prop, seed):
    rng = random.Random(seed)
    nthreads = rng.choice([1, 2, 2, 3, 3])
    progs = [[] for _ in range(nthreads)]
    sub = rng.randrange(nthreads)          # the submission-role thread
    fin = rng.randrange(nthreads)          # the final-task-role thread
    used_result = False
    eid = [0]

    def new_e():
        eid[0] += 1
        return eid[0]
    for ti in range(nthreads):
        n = rng.randint(3, 8)
        phase = 0
        for _ in range(n):
            r = rng.random()
            if ti == sub and phase < 2 and r < 0.3:
                progs[ti].append(['queued'] if phase == 0 else ['running'])
                phase += 1
            elif ti == fin and not used_result and r < 0.4:
                # (every final task of the library returns None: the result of
                # a successful transfer is None more often than not)
                progs[ti].append(['set_result', None if rng.random() < 0.5 else 'R%d' % seed])
                used_result = True
            elif r < 0.5:
                progs[ti].append(['set_exception', new_e()])
            elif r < 0.56:
                progs[ti].append(['set_exception_override', new_e()])
            elif r < 0.68:
                progs[ti].append(['cancel', rng.choice(['', 'm', 'stop']),
                                  rng.choice(['CancelledError', 'FatalError'])])
            elif r < 0.74:
                progs[ti].append(['fut_set_exception', new_e()])
            elif r < 0.8:
                progs[ti].append(['announce'])
            elif r < 0.84:
                progs[ti].append(['add_done_cb', rng.random() < 0.25])
            elif r < 0.88:
                # (a cleanup or done callback may raise: the coordinator logs it
                # and goes on, the recorded outcome is not affected)
                progs[ti].append(['add_cleanup', rng.random() < 0.4])
            elif r < 0.905:
                # the user's view: future.result() once done has been announced
                progs[ti].append(['fut_result'])
            elif r < 0.93:
                progs[ti].append(['done'])
            elif r < 0.97:
                progs[ti].append(['status'])
            else:
                progs[ti].append(['exception'])
    sc = {'programs': progs, 'strategy': gen_strategy(rng, 100),
          'sched_seed': rng.randrange(1 << 62), 'seed': seed, 'prop': prop}
    r = rng.random()
    if prop == 'C07':
        r = 0.1      # C07's stage: waiter mode only, with a cancellation in play
    if 0.2 <= r < 0.38:
        # statement-level pre-emption of the ordinary programs: every mutator
        # is atomic under the coordinator lock, so the history must still be
        # linearizable however the statements of two calls interleave.  Plain
        # reads of .status / .exception are left out: a reader may legitimately
        # see set_result() half-way (the statement is about the state once done
        # is announced and about done(), which is a single read).
        sc['mode'] = 'lines'
        sc['programs'] = [[op for op in p if op[0] not in ('status', 'exception', 'fut_result')]
                          for p in progs]
    if r < 0.2:
        # statement-level pre-emption: no set_result / override, so the first
        # recorded failure is final; an extra thread blocks in result()
        sc['mode'] = 'waiter'
        # (announce_done is only issued after a failure in the same thread's
        # program order, as the library does: never before the outcome exists)
        keep = ('queued', 'running', 'set_exception', 'cancel', 'done',
                'status', 'exception', 'add_done_cb')
        sc['programs'] = [[op for op in p if op[0] in keep] for p in progs]
        if not any(op[0] in ('set_exception', 'cancel') for p in sc['programs'] for op in p):
            sc['programs'][0].append(['set_exception', 99])
        if prop == 'C07' and not any(op[0] == 'cancel' for p in sc['programs'] for op in p):
            p0 = sc['programs'][rng.randrange(len(sc['programs']))]
            p0.insert(rng.randint(0, len(p0)), ['cancel', rng.choice(['', 'm', 'stop']),
                                                rng.choice(['CancelledError', 'FatalError'])])
        sc['programs'] = [p + [['announce']] if any(op[0] in ('set_exception', 'cancel')
                                                   for op in p) and rng.random() < 0.7 else p
                          for p in sc['programs']]
        # the final task's behaviour: it announces as soon as it sees done()
        for p in sc['programs']:
            for _ in range(rng.randint(0, 3)):
                p.insert(rng.randint(0, len(p)), ['announce_if_done'])
        if rng.random() < 0.5:
            sc['programs'].append([['announce_if_done']] * rng.randint(2, 5))
    return sc


def model_step(state, op, args):
    status, exc, result = state
    done = status in DONE
    if op in ('queued', 'running'):
        if done:
            return state, ('exc', 'RuntimeError')
        return (op, exc, result), ('ok', None)
    if op == 'set_result':
        return ('success', None, args[0]), ('ok', None)
    if op == 'set_exception':
        if not done:
            return ('failed', ('E', args[0]), result), ('ok', None)
        return state, ('ok', None)
    if op == 'set_exception_override':
        return ('failed', ('E', args[0]), result), ('ok', None)
    if op == 'cancel':
        if not done:
            return ('cancelled', ('C', args[1], args[0]), result), ('ok', None)
        return state, ('ok', None)
    if op == 'fut_set_exception':
        if not done:
            return state, ('exc', 'TransferNotDoneError')
        return ('failed', ('E', args[0]), result), ('ok', None)
    if op == 'fut_result':
        return state, ('ok', ('X', exc) if exc is not None else ('R', result))
    if op == 'done':
        return state, ('ok', done)
    if op == 'status':
        return state, ('ok', status)
    if op == 'exception':
        return state, ('ok', exc)
    if op in ('announce', 'add_done_cb', 'add_cleanup'):
        return state, ('ok', None)
    raise ValueError(op)


class _E(Exception):
    def __init__(self, i):
        super().__init__('E%d' % i)
        self.i = i


def _exc_key(e):
    if e is None:
        return None
    if isinstance(e, _E):
        return ('E', e.i)
    return ('C', type(e).__name__, str(e))


def execute(sc, choices=None, lenient=False):
    seams.install()
    from s3transfer.exceptions import CancelledError, FatalError
    from s3transfer.futures import TransferCoordinator, TransferFuture
    th = simstd.simthreading
    if choices is not None:
        chooser = kernel.ReplayChooser(choices, lenient=lenient)
    else:
        chooser = kernel.RandomChooser(sc['sched_seed'], tuple(sc['strategy']))
    sim = kernel.Sim(chooser, max_steps=20000)
    hist = []
    violations = []
    cb_runs = {}
    cb_registered = {}
    announces = []
    excs = {}

    def record(op, args, fn):
        h = {'inv': sim.stamp(), 'ret': None, 'op': op, 'args': args,
             'res': None, 'tid': sim.current.tid}
        hist.append(h)
        try:
            v = fn()
            h['res'] = ('ok', v)
        except kernel.SimAbort:
            raise
        except Exception as e:   # noqa
            h['res'] = ('exc', type(e).__name__)
        h['ret'] = sim.stamp()
        return h

    waiter_mode = sc.get('mode') == 'waiter'

    def main():
        coord = TransferCoordinator(transfer_id=1)
        fut = TransferFuture(coordinator=coord)
        cbn = [0]
        last_cb = [None]

        def mk_cb(kind, raises=False):
            cbn[0] += 1
            name = '%s%d' % (kind, cbn[0])
            last_cb[0] = name

            def cb():
                sim.point('cb')
                cb_runs.setdefault(name, []).append(
                    (sim.stamp(), coord.status, getattr(coord._done_event, "is_set", lambda: None)()))
                if raises:
                    raise _E(900 + cbn[0])
            return cb

        def worker(prog):
            for op in prog:
                k = op[0]
                if k == 'queued':
                    record(k, (), coord.set_status_to_queued)
                elif k == 'running':
                    record(k, (), coord.set_status_to_running)
                elif k == 'set_result':
                    record(k, (op[1],), lambda: coord.set_result(op[1]))
                elif k == 'set_exception':
                    e = excs.setdefault(op[1], _E(op[1]))
                    record(k, (op[1],), lambda: coord.set_exception(e))
                elif k == 'set_exception_override':
                    e = excs.setdefault(op[1], _E(op[1]))
                    record(k, (op[1],), lambda: coord.set_exception(e, override=True))
                elif k == 'cancel':
                    et = FatalError if op[2] == 'FatalError' else CancelledError
                    record(k, (op[1], op[2]), lambda: coord.cancel(op[1], et))
                elif k == 'fut_set_exception':
                    e = excs.setdefault(op[1], _E(op[1]))
                    record(k, (op[1],), lambda: fut.set_exception(e))
                elif k == 'announce':
                    a = [sim.stamp(), None]
                    announces.append(a)
                    record(k, (), coord.announce_done)
                    a[1] = sim.stamp()
                elif k == 'announce_if_done':
                    if coord.done():
                        a = [sim.stamp(), None]
                        announces.append(a)
                        record('announce', (), coord.announce_done)
                        a[1] = sim.stamp()
                elif k == 'add_done_cb':
                    cb = mk_cb('d', len(op) > 1 and op[1])
                    name = last_cb[0]
                    h = record(k, (), lambda: coord.add_done_callback(cb))
                    cb_registered[name] = h['ret']
                elif k == 'add_cleanup':
                    cb = mk_cb('c', len(op) > 1 and op[1])
                    name = last_cb[0]
                    h = record(k, (), lambda: coord.add_failure_cleanup(cb))
                    cb_registered[name] = h['ret']
                elif k == 'fut_result':
                    # (only once some announce_done() has returned: before that
                    # result() would wait, which no program here can end)
                    if any(a[1] is not None for a in announces):
                        def call():
                            try:
                                return ('R', fut.result())
                            except kernel.SimAbort:
                                raise
                            except BaseException as x:   # noqa
                                return ('X', _exc_key(x))
                        record(k, (), call)
                elif k == 'done':
                    record(k, (), fut.done)
                elif k == 'status':
                    record(k, (), lambda: coord.status)
                elif k == 'exception':
                    record(k, (), lambda: _exc_key(coord.exception))

        threads = [th.Thread(target=worker, args=(p,)) for p in sc['programs']]
        waiter_out = []
        if waiter_mode:
            def waiter():
                try:
                    v = fut.result()
                    waiter_out.append(('ok', v, sim.stamp()))
                except kernel.SimAbort:
                    raise
                except BaseException as x:   # noqa
                    waiter_out.append(('exc', x, sim.stamp()))
            wt = th.Thread(target=waiter)
            wt._sim_role = 'waiter'
            threads.append(wt)
        for t in threads:
            t._sim_role = getattr(t, '_sim_role', None) or 'worker'
            t.start()
        for t in threads[:len(sc['programs'])]:
            t.join()
        # final phase: announce, then status / exception / result() must agree
        a = [sim.stamp(), None]
        announces.append(a)
        coord.announce_done()
        a[1] = sim.stamp()
        if waiter_mode:
            threads[-1].join()
            w0 = waiter_out[0]
            final = coord.exception
            if coord.status in ('failed', 'cancelled'):
                if w0[0] == 'ok' and coord.status == 'cancelled':
                    # (the same observation, as C07 states it)
                    violations.append(['C07', 'cancelled-transfer-reported-success',
                                       'result() of a waiter returned %r although the transfer '
                                       'was cancelled (%r): a racing cancel yielded a reported '
                                       'success' % (w0[1], final), {}])
                if w0[0] == 'ok':
                    violations.append(['C17', 'result-returned-for-failed-transfer',
                                       'a waiter\'s result() returned %r although the transfer '
                                       'was %s with %r once done was announced'
                                       % (w0[1], coord.status, final), {}])
                elif w0[1] is not final:
                    violations.append(['C17', 'result-raises-other',
                                       'a waiter\'s result() raised %r, the recorded (first) '
                                       'failure is %r' % (w0[1], final), {}])
        st = coord.status
        if st in DONE:
            e = coord.exception
            if (e is not None) != (st in ('failed', 'cancelled')):
                violations.append(['C17', 'status-exception-disagree',
                                   'after announce: status=%s but stored exception is %r'
                                   % (st, e), {}])
            try:
                v = fut.result()
                if e is not None:
                    violations.append(['C17', 'result-ignores-exception',
                                       'result() returned %r although %r is stored' % (v, e), {}])
                elif v != coord._result:
                    violations.append(['C17', 'result-differs',
                                       'result() returned %r, stored %r' % (v, coord._result), {}])
            except kernel.SimAbort:
                raise
            except BaseException as x:   # noqa
                if x is not e:
                    violations.append(['C17', 'result-raises-other',
                                       'result() raised %r, stored exception is %r' % (x, e), {}])

    lp = False
    if waiter_mode or sc.get('mode') == 'lines':
        from . import linepre
        lp = linepre.enable()
        sim.max_steps *= 25
    try:
        sim.run(main)
    finally:
        if lp:
            linepre.disable()
    simstd.reset_between_runs()
    from .world import collect_between_runs
    collect_between_runs()
    harness = []
    f = sim.failure
    if f is not None:
        if f[0] in ('deadlock', 'step-budget'):
            violations.append(['C17', f[0], f[1] + ' ' + str(
                [(d['role'], (d.get('stack') or [])[-3:]) for d in (f[2] or [])])[:600], {}])
        else:
            harness.append((f[0], f[1]))
    for e in sim.thread_errors:
        harness.append(('thread-exception', e[2]))
    lin_nodes = 0
    if not harness and f is None and waiter_mode:
        last = {}
        for h in hist:
            if h['op'] == 'done' and h['res'] and h['res'][0] == 'ok':
                if last.get(h['tid']) and not h['res'][1]:
                    violations.append(['C17', 'done-went-false',
                                       'thread %d saw done() True and later False' % h['tid'], {}])
                last[h['tid']] = h['res'][1]
    if not harness and f is None and not waiter_mode:
        try:
            ok, order, lin_nodes = linearizable(
                hist, ('not-started', None, None), model_step)
        except RuntimeError as e:
            harness.append(('lin-budget', str(e)))
            ok = True
        if not ok:
            violations.append(['C17', 'not-linearizable',
                               'history has no sequential explanation in the reference '
                               'state machine: %s' % _fmt(hist), {}])
        # per-observer monotonicity of done()
        last = {}
        for h in hist:
            if h['op'] == 'done' and h['res'] and h['res'][0] == 'ok':
                if last.get(h['tid']) and not h['res'][1]:
                    violations.append(['C17', 'done-went-false',
                                       'thread %d saw done() True and later False' % h['tid'], {}])
                last[h['tid']] = h['res'][1]
        # callbacks at most once; exactly once if registered before an announce began
        for name, runs in cb_runs.items():
            if len(runs) > 1:
                violations.append(['C17', 'callback-twice',
                                   '%s ran %d times' % (name, len(runs)), {}])
        last_announce_begin = max(a[0] for a in announces)
        for name, reg in cb_registered.items():
            if name.startswith('d') and reg < last_announce_begin and name not in cb_runs:
                violations.append(['C17', 'done-callback-lost',
                                   '%s was registered before the last announce_done but never ran'
                                   % name, {}])
    nmut = sum(1 for p in sc['programs'] for op in p if op[0] in MUTATORS)
    nontrivial = sim.multi_points >= 1 and nmut >= 2
    return {
        'steps': sim.steps, 'switches': sim.switches, 'digest': sim.digest,
        'multi_points': sim.multi_points, 'sim_time': 0.0,
        'violations': violations, 'harness': harness,
        'fault_kinds': {'competing-mutators': [nmut, nmut]},
        'probes': {'lin_nodes': lin_nodes, 'history_events': len(hist)},
        'nontrivial': nontrivial, 'states': [], 'trace': sim.trace,
        'strategy': sc['strategy'][0], 'history': _fmt(hist),
    }


def _fmt(hist):
    return [(h['tid'], h['op'], list(h['args']), h['inv'], h['ret'],
             _j(h['res'])) for h in hist]


def _j(r):
    if r is None:
        return None
    return [r[0], list(r[1]) if isinstance(r[1], tuple) else r[1]]


def sample_of(sc, res):
    return {'programs': sc['programs'], 'strategy': sc['strategy'],
            'history': res['history'][:30], 'first_choices': res['trace'][:40]}


def shrink_candidates(sc):
    import copy
    for i in range(len(sc['programs'])):
        if len(sc['programs']) > 1:
            c = copy.deepcopy(sc)
            del c['programs'][i]
            yield c
    for i, p in enumerate(sc['programs']):
        for j in range(len(p)):
            c = copy.deepcopy(sc)
            del c['programs'][i][j]
            yield c
