"""Batch runner shared by all engines: seeded fan-out over forked workers,
violation triage against known findings, minimisation, replay files, evidence."""
import concurrent.futures as cf
import faulthandler
import hashlib
import json
import multiprocessing
import os
import subprocess
import sys
import time
import zlib

VERIF = os.path.dirname(os.path.dirname(os.path.abspath(__file__)))
REPO = os.environ.get('VERIF_REPO', '/repo')

EXIT_OK, EXIT_VIOLATION, EXIT_HARNESS = 0, 1, 2


def run_seed(master, prop, tier, index):
    h = hashlib.blake2b(('%d|%s|%d' % (master, prop, index)).encode(),
                        digest_size=8).digest()
    return int.from_bytes(h, 'big') >> 2


def repo_tree_hash():
    h = hashlib.sha256()
    d = os.path.join(REPO, 's3transfer')
    for fn in sorted(os.listdir(d)):
        if fn.endswith('.py'):
            h.update(fn.encode())
            with open(os.path.join(d, fn), 'rb') as f:
                h.update(f.read())
    return h.hexdigest()[:16]


def get_engine(name):
    if name == 'world':
        from . import runone as e
    elif name == 'sem':
        from . import focus_sem as e
    elif name == 'coord':
        from . import focus_coord as e
    elif name == 'defer':
        from . import focus_defer as e
    elif name == 'bw':
        from . import focus_bw as e
    elif name == 'pp':
        from . import ppworld as e
    elif name == 'crt':
        from . import crtworld as e
    elif name == 'legacy':
        from . import legacyworld as e
    else:
        raise ValueError(name)
    return e


# ---- worker side -----------------------------------------------------------

_pinned = [False]


def _worker_init(counter):
    # one worker process per core, pinned: all simulated threads of a worker
    # then hand the baton over on one CPU (no cross-CPU wake-ups)
    try:
        with counter.get_lock():
            i = counter.value
            counter.value += 1
        cpus = sorted(os.sched_getaffinity(0))
        os.sched_setaffinity(0, {cpus[i % len(cpus)]})
    except Exception:
        pass


def _batch(args):
    engine_name, prop, tier, master, start, count, report_props = args
    faulthandler.dump_traceback_later(600, exit=True)
    eng = get_engine(engine_name)
    agg = new_agg()
    t0 = time.time()
    for idx in range(start, start + count):
        seed = run_seed(master, prop, tier, idx)
        sc = eng.generate(prop, seed)
        try:
            res = eng.execute(sc)
        except BaseException as e:   # noqa  (harness bug: report, keep going)
            import traceback
            agg['harness'].append({'index': idx, 'seed': seed,
                                   'kind': 'engine-exception',
                                   'msg': repr(e), 'detail': traceback.format_exc()[-3000:]})
            continue
        fold(agg, eng, sc, res, idx, seed, report_props)
    agg['cpu_s'] = time.time() - t0
    faulthandler.cancel_dump_traceback_later()
    return agg


def new_agg():
    return {'runs': 0, 'steps': 0, 'switches': 0, 'sim_time': 0.0,
            'digests': set(), 'nontrivial_digests': set(), 'states': set(),
            'fault_kinds': {}, 'probes': {}, 'strategies': {},
            'violations': [], 'cross': {}, 'harness': [], 'samples': [],
            'multi': 0, 'requests': 0, 'cpu_s': 0.0}


def fold(agg, eng, sc, res, idx, seed, report_props):
    agg['runs'] += 1
    agg['steps'] += res.get('steps', 0)
    agg['switches'] += res.get('switches', 0)
    agg['sim_time'] += res.get('sim_time', 0.0)
    agg['requests'] += res.get('requests', 0)
    d = res.get('digest')
    agg['digests'].add(d)
    if res.get('nontrivial'):
        agg['nontrivial_digests'].add(d)
    if res.get('multi_points'):
        agg['multi'] += 1
    agg['states'].update(res.get('states') or ())
    for k, (c, f) in (res.get('fault_kinds') or {}).items():
        a = agg['fault_kinds'].setdefault(k, [0, 0])
        a[0] += c
        a[1] += f
    for k, v in (res.get('probes') or {}).items():
        agg['probes'][k] = agg['probes'].get(k, 0) + v
    s = res.get('strategy')
    if s:
        agg['strategies'][s] = agg['strategies'].get(s, 0) + 1
    for v in res.get('violations') or []:
        if v[0] in report_props:
            if len(agg['violations']) < 40:
                agg['violations'].append({
                    'index': idx, 'seed': seed, 'property': v[0], 'class': v[1],
                    'message': v[2], 'sig': v[3], 'scenario': sc,
                    'choices': res.get('trace'), 'digest': d})
        else:
            k = '%s/%s' % (v[0], v[1])
            agg['cross'][k] = agg['cross'].get(k, 0) + 1
    for h in res.get('harness') or []:
        if len(agg['harness']) < 10:
            agg['harness'].append({'index': idx, 'seed': seed, 'kind': h[0],
                                   'msg': h[1],
                                   'detail': (res.get('harness_detail') or [''])[0]})
    if len(agg['samples']) < 2 and res.get('nontrivial'):
        agg['samples'].append(eng.sample_of(sc, res))


def merge(a, b):
    for k in ('runs', 'steps', 'switches', 'sim_time', 'multi', 'requests', 'cpu_s'):
        a[k] += b[k]
    for k in ('digests', 'nontrivial_digests', 'states'):
        a[k] |= b[k]
    for k, (c, f) in b['fault_kinds'].items():
        x = a['fault_kinds'].setdefault(k, [0, 0])
        x[0] += c
        x[1] += f
    for name in ('probes', 'strategies', 'cross'):
        for k, v in b[name].items():
            a[name][k] = a[name].get(k, 0) + v
    a['violations'] += b['violations']
    a['harness'] += b['harness']
    if len(a['samples']) < 4:
        a['samples'] += b['samples'][:4 - len(a['samples'])]


# ---- known findings -----------------------------------------------------------

def load_known():
    p = os.path.join(VERIF, 'known_findings.json')
    if not os.path.exists(p):
        return []
    with open(p) as f:
        return [k for k in json.load(f).get('findings', [])
                if k.get('status') == 'known']


def match_known(v, known):
    for k in known:
        if k['property'] != v['property'] or k['class'] != v['class']:
            continue
        ok = True
        for key, val in (k.get('match') or {}).items():
            if key == 'message_contains':
                if val not in v['message']:
                    ok = False
            elif json.loads(json.dumps(v['sig'].get(key))) != val:
                ok = False
        if ok:
            return k
    return None


# ---- minimisation ----------------------------------------------------------------

def same_violation(res, v):
    for x in res.get('violations') or []:
        if x[0] == v['property'] and x[1] == v['class']:
            return x
    return None


def minimise(eng, v, budget_s=60):
    """Delta-debug scenario then schedule; returns (scenario, choices, result)."""
    t0 = time.time()
    sc = v['scenario']
    choices = list(v['choices'] or [])
    res = eng.execute(sc, choices, lenient=True)
    if not same_violation(res, v):
        return sc, choices, None, {'note': 'not reproducible under replay'}
    stats = {'candidates': 0, 'kept': 0}
    # 1. scenario
    progress = True
    while progress and time.time() - t0 < budget_s:
        progress = False
        for cand in eng.shrink_candidates(sc):
            stats['candidates'] += 1
            try:
                # a different scenario invalidates the schedule: search a few
                r = None
                for attempt in ([choices, None, None, None] if choices else [None] * 4):
                    c2 = cand if attempt is not None else _reseed(cand, stats['candidates'])
                    r = eng.execute(c2, attempt, lenient=True)
                    if same_violation(r, v):
                        cand = c2
                        break
                    r = None
            except BaseException:   # noqa
                r = None
            if r is not None:
                sc, res, choices = cand, r, list(r['trace'])
                stats['kept'] += 1
                progress = True
                break
            if time.time() - t0 > budget_s:
                break
    # 2. schedule: zero out blocks of non-default choices
    choices = list(res['trace'])
    nz = [i for i, c in enumerate(choices) if c]
    chunk = max(1, len(nz) // 2)
    while nz and time.time() - t0 < budget_s * 1.5:
        i = 0
        changed = False
        while i < len(nz):
            trial = list(choices)
            for j in nz[i:i + chunk]:
                trial[j] = 0
            stats['candidates'] += 1
            try:
                r = eng.execute(sc, trial, lenient=True)
            except BaseException:   # noqa
                r = None
            if r is not None and same_violation(r, v):
                choices = list(r['trace'])
                res = r
                nz = [k for k, c in enumerate(choices) if c]
                changed = True
                stats['kept'] += 1
            else:
                i += chunk
            if time.time() - t0 > budget_s * 1.5:
                break
        if chunk == 1 and not changed:
            break
        chunk = max(1, chunk // 2)
    # strip trailing zeros (replay pads with zeros)
    while choices and choices[-1] == 0:
        choices.pop()
    stats['preemptions'] = len([c for c in choices if c])
    stats['seconds'] = round(time.time() - t0, 2)
    return sc, choices, res, stats


def _reseed(sc, n):
    import copy
    c = copy.deepcopy(sc)
    c['sched_seed'] = (sc.get('sched_seed', 0) * 7919 + n) % (1 << 62)
    return c


# ---- replay files ----------------------------------------------------------------------

def write_replay(engine_name, v, sc, choices, res, stats):
    os.makedirs(os.path.join(VERIF, 'replays'), exist_ok=True)
    x = same_violation(res, v) if res else None
    doc = {
        'engine': engine_name, 'property': v['property'], 'class': v['class'],
        'message': x[2] if x else v['message'], 'sig': x[3] if x else v['sig'],
        'found_by': {'index': v['index'], 'seed': v['seed'],
                     'original_message': v['message']},
        'repo_tree': repo_tree_hash(), 'scenario': sc, 'choices': choices,
        'digest': res['digest'] if res else v['digest'],
        'steps': res['steps'] if res else None,
        'minimisation': stats,
    }
    variant = (v.get('sig') or {}).get('variant')
    path = os.path.join(VERIF, 'replays', '%s-%s%s-%d.json' % (
        v['property'], v['class'], '-' + str(variant) if variant else '', v['seed']))
    with open(path, 'w') as f:
        json.dump(doc, f, indent=1, default=_jsonable)
    return path


def write_history_replay(engine_name, v, plan, master, tier):
    """Replay that re-executes the worker batch up to the violating run (for
    violations that depend on state left behind by earlier runs)."""
    os.makedirs(os.path.join(VERIF, 'replays'), exist_ok=True)
    batch = plan.get('batch', 200)
    start = (v['index'] // batch) * batch
    doc = {'engine': engine_name, 'property': v['property'], 'class': v['class'],
           'message': v['message'], 'sig': v['sig'], 'repo_tree': repo_tree_hash(),
           'history': {'gen_prop': plan.get('gen_prop', v['property']), 'tier': tier,
                       'master': master, 'start': start, 'index': v['index']},
           'digest': v['digest'],
           'note': 'depends on process state from earlier runs of the batch: the replay '
                   're-executes runs start..index in one process'}
    path = os.path.join(VERIF, 'replays', '%s-%s-history-%d.json' % (
        v['property'], v['class'], v['seed']))
    with open(path, 'w') as f:
        json.dump(doc, f, indent=1, default=_jsonable)
    return path


def _jsonable(o):
    if isinstance(o, (set, frozenset)):
        return sorted(o)
    if isinstance(o, bytes):
        return o.decode('latin1')
    return repr(o)


def do_replay(path, quiet=False):
    with open(path) as f:
        doc = json.load(f)
    eng = get_engine(doc['engine'])
    if 'history' in doc:
        h = doc['history']
        res = None
        for idx in range(h['start'], h['index'] + 1):
            seed = run_seed(h['master'], h['gen_prop'], h['tier'], idx)
            res = eng.execute(eng.generate(h['gen_prop'], seed))
    else:
        res = eng.execute(doc['scenario'], doc['choices'], lenient=False)
    v = {'property': doc['property'], 'class': doc['class']}
    x = same_violation(res, v)
    out = {'reproduced': bool(x), 'digest_equal': res['digest'] == doc['digest'],
           'message': x[2] if x else None, 'harness': res.get('harness')}
    if not quiet:
        print(json.dumps(out))
    if x and res['digest'] == doc['digest']:
        if not quiet:
            print('VIOLATION property=%s replay=%s' % (doc['property'], path))
        return EXIT_VIOLATION
    if res.get('harness'):
        return EXIT_HARNESS
    return EXIT_OK if not x else EXIT_HARNESS


def verify_replay_fresh(path):
    """Replay in a fresh interpreter (other PYTHONHASHSEED): must reproduce."""
    env = dict(os.environ)
    env['PYTHONHASHSEED'] = '12345'
    p = subprocess.run([sys.executable, os.path.join(VERIF, 'bin', 'check.py'),
                        '--replay', path], env=env, capture_output=True,
                       text=True, timeout=300)
    return p.returncode == EXIT_VIOLATION, (p.stdout + p.stderr)[-2000:]


# ---- the check -------------------------------------------------------------------------------

def explore(prop, tier, engine_name, plan, master, jobs):
    """Fan the seeded runs of one engine out over forked workers."""
    t0 = time.time()
    report_props = plan.get('report', [prop])
    total = plan['runs']
    batch = plan.get('batch', 200)
    cap = plan['cap_s']
    agg = new_agg()
    timed_out = False
    harness_fatal = None
    ctx = multiprocessing.get_context('fork')
    gen_prop = plan.get('gen_prop', prop)
    tasks = [(engine_name, gen_prop, tier, master, s, min(batch, total - s), report_props)
             for s in range(0, total, batch)]
    counter = ctx.Value('i', 0)
    with cf.ProcessPoolExecutor(max_workers=jobs, mp_context=ctx,
                                initializer=_worker_init,
                                initargs=(counter,)) as ex:
        pending = set()
        it = iter(tasks)
        try:
            for _ in range(jobs * 2):
                t = next(it, None)
                if t is None:
                    break
                pending.add(ex.submit(_batch, t))
            while pending:
                done, pending = cf.wait(pending, timeout=300,
                                        return_when=cf.FIRST_COMPLETED)
                if not done:
                    harness_fatal = 'worker batch did not return within 300 s'
                    break
                for f in done:
                    try:
                        merge(agg, f.result())
                    except BaseException as e:   # noqa
                        harness_fatal = 'worker died: %r' % (e,)
                if harness_fatal:
                    break
                over = time.time() - t0 > cap
                stop = over or len(agg['violations']) >= 20
                if over:
                    timed_out = True
                while not stop and len(pending) < jobs * 2:
                    t = next(it, None)
                    if t is None:
                        break
                    pending.add(ex.submit(_batch, t))
                if stop:
                    it = iter(())
        finally:
            if harness_fatal:
                for p in list(getattr(ex, '_processes', {}).values()):
                    try:
                        p.kill()
                    except Exception:
                        pass
    agg['wall'] = time.time() - t0
    agg['timed_out'] = timed_out
    agg['harness_fatal'] = harness_fatal
    agg['planned'] = total
    return agg


DEFAULT_RULE = (
    'one evaluation = one simulated run of a seeded scenario under a seeded '
    'schedule; distinct = distinct trace digest (crc32 over the sequence of '
    '(thread id, scheduling-point tag)); non-trivial = at least one scheduling '
    'point offered >= 2 runnable threads AND (>= 1 injected fault fired OR >= 2 '
    'S3 requests were in flight at once OR a cancel/interrupt was issued)')


def run_check(prop, tier, stages, level='exploration'):
    """stages: [(engine name, plan)], plan = {'runs','cap_s','batch',...}"""
    master = int(os.environ.get('VERIF_SEED', '0') or 0)
    jobs = int(os.environ.get('VERIF_JOBS', '0') or 0) or min(16, os.cpu_count() or 1)
    t0 = time.time()
    known = load_known()
    out_lines = []
    new_total = 0
    known_hits = {}
    replay_paths = []
    harness_fatal = None
    harness_list = []
    stage_cov = []
    min_stats = None
    tot_runs = 0
    tot_distinct = 0
    samples = []
    rules = []
    real, stub, assumptions = [], [], []
    explore_wall = 0.0
    for engine_name, plan in stages:
        eng = get_engine(engine_name)
        agg = explore(prop, tier, engine_name, plan, master, jobs)
        explore_wall += agg['wall']
        harness_fatal = harness_fatal or agg['harness_fatal']
        harness_list += agg['harness']
        new_violations = []
        agg['violations'].sort(key=lambda v: v['index'])
        for v in agg['violations']:
            k = match_known(v, known)
            if k is not None:
                known_hits.setdefault(k['id'], [k, 0])[1] += 1
            else:
                new_violations.append(v)
        new_total += len(new_violations)
        # one replay per (property, class, variant); a candidate whose replay does
        # not reproduce in a fresh interpreter (e.g. it depended on state an
        # earlier run left in the worker process) is retried with its batch
        # history, then the next candidate of that class is tried
        by_key = {}
        for v in new_violations:
            key = (v['property'], v['class'], str((v.get('sig') or {}).get('variant')))
            by_key.setdefault(key, []).append(v)
        unreplayable = []
        for key in list(by_key)[:3]:
            done = False
            for v in by_key[key][:4]:
                sc, choices, res, min_stats = minimise(eng, v, plan.get('min_budget_s', 45))
                ok = False
                if res:
                    path = write_replay(engine_name, v, sc, choices, res, min_stats)
                    ok, log = verify_replay_fresh(path)
                if not ok:
                    r0 = eng.execute(v['scenario'], v['choices'], lenient=True)
                    if same_violation(r0, v):
                        path = write_replay(engine_name, v, v['scenario'], v['choices'], r0,
                                            {'note': 'minimised form did not replay; original kept'})
                        ok, log = verify_replay_fresh(path)
                if not ok:
                    path = write_history_replay(engine_name, v, plan, master, tier)
                    ok, log = verify_replay_fresh(path)
                if ok:
                    replay_paths.append((v, path))
                    out_lines.append('VIOLATION property=%s replay=%s' % (v['property'], path))
                    out_lines.append('  engine=%s class=%s seed=%d :: %s'
                                     % (engine_name, v['class'], v['seed'], v['message'][:600]))
                    done = True
                    break
                unreplayable.append('%s/%s seed %d: %s' % (v['property'], v['class'],
                                                           v['seed'], log[-300:]))
            if not done and not replay_paths:
                harness_fatal = harness_fatal or (
                    'violation(s) did not replay in a fresh interpreter: %s'
                    % '; '.join(unreplayable[-2:]))
        if replay_paths and harness_fatal and 'did not replay' in harness_fatal:
            harness_fatal = None
        hours = max(agg['wall'], 1e-9) / 3600.0
        tot_runs += agg['runs']
        tot_distinct += len(agg['nontrivial_digests'])
        samples += [dict(s, engine=engine_name) for s in agg['samples'][:2]]
        rule = getattr(eng, 'RULE', DEFAULT_RULE)
        rules.append('[%s] %s' % (engine_name, rule))
        for x in getattr(eng, 'REAL', []):
            if x not in real:
                real.append(x)
        for x in getattr(eng, 'STUB', []):
            if x not in stub:
                stub.append(x)
        for x in getattr(eng, 'ASSUMPTIONS', []):
            if x not in assumptions:
                assumptions.append(x)
        stage_cov.append({
            'engine': engine_name,
            'evaluations': agg['runs'],
            'distinct_nontrivial': len(agg['nontrivial_digests']),
            'distinct_digests_all': len(agg['digests']),
            'runs_with_real_concurrency': agg['multi'],
            'scheduling_steps': agg['steps'],
            'context_switches': agg['switches'],
            'simulated_seconds': round(agg['sim_time'], 3),
            'distinct_abstract_states': len(agg['states']),
            'runs_per_hour': int(agg['runs'] / hours),
            'seeds_per_hour': int(agg['runs'] / hours),
            'faults_configured_fired': {k: {'configured': c, 'fired': f}
                                        for k, (c, f) in sorted(agg['fault_kinds'].items())},
            'fault_kinds_never_fired': sorted(k for k, (c, f) in agg['fault_kinds'].items()
                                              if c and not f),
            'probes': dict(sorted(agg['probes'].items())),
            'scheduler_strategies': agg['strategies'],
            'cross_hits_other_properties': agg['cross'],
            'planned_runs': agg['planned'], 'stopped_by_time_cap': agg['timed_out'],
            'violations_reported': len(new_violations),
            'wall_s': round(agg['wall'], 2),
        })
    for kid, (k, n) in sorted(known_hits.items()):
        out_lines.append('KNOWN-FINDING: property=%s %s (%s; seen %d times in this run)'
                         % (k['property'], k['what'], kid, n))
    wall = time.time() - t0
    hours = max(explore_wall, 1e-9) / 3600.0
    cov = {
        'evaluations': tot_runs,
        'distinct_nontrivial': tot_distinct,
        'rule': ' || '.join(rules),
        'samples': samples[:4] or [{'note': 'no non-trivial sample captured'}],
        'runs_per_hour': int(tot_runs / hours),
        'seeds_per_hour': int(tot_runs / hours),
        'scheduling_steps': sum(s['scheduling_steps'] for s in stage_cov),
        'simulated_seconds': round(sum(s['simulated_seconds'] for s in stage_cov), 3),
        'stages': stage_cov,
        'real_components': real, 'stub_components': stub,
        'known_findings_seen': {kid: n for kid, (k, n) in known_hits.items()},
        'jobs': jobs, 'repo_tree': repo_tree_hash(),
        'harness_errors': harness_list[:5],
        'minimisation': min_stats,
    }
    ev = {
        'property_id': prop, 'tier': tier, 'seed': master, 'level': level,
        'coverage': cov,
        'assumptions': assumptions or [
            'SimS3 models the S3 operations and botocore body/stream protocol from '
            'botocore source; real HTTP is not exercised',
            'pre-emption happens at synchronisation, I/O and callback points, not '
            'between arbitrary bytecodes'],
        'wall_s': round(wall, 2),
        'violations': new_total,
    }
    os.makedirs(os.path.join(VERIF, 'evidence'), exist_ok=True)
    with open(os.path.join(VERIF, 'evidence', '%s.json' % prop), 'w') as f:
        json.dump(ev, f, indent=1, default=_jsonable)
    print('%s tier=%s seed=%d engines=%s runs=%d distinct_nontrivial=%d wall=%.1fs '
          '(%.0f runs/h) violations=%d known=%d harness=%d'
          % (prop, tier, master, '+'.join(e for e, _ in stages), tot_runs,
             tot_distinct, wall, tot_runs / hours, new_total,
             sum(n for _, n in known_hits.values()), len(harness_list)))
    for ln in out_lines:
        print(ln)
    if harness_fatal or harness_list:
        print('HARNESS-ERROR: %s' % (harness_fatal or json.dumps(harness_list[0])[:1500]))
        return EXIT_HARNESS
    if replay_paths:
        return EXIT_VIOLATION
    return EXIT_OK
