"""Property oracles over a finished World.  Each returns nothing and appends
(property, class, message) to world.violations.  Every rule here is either
equality with the input, a rule S3 itself enforces, a counter that
under-approximates the bounded quantity, or a statement-literal ordering over
exact kernel sequence stamps."""
from concurrent.futures import CancelledError

from .faults import FATAL_KINDS, RETRYABLE_KINDS
from .world import BUCKET, _short

DONE_STATES = ('success', 'failed', 'cancelled')


def _is_cancel_exc(e):
    return isinstance(e, CancelledError)


def nat_ok(t):
    """Did the library itself finish the transfer successfully?  (A user
    callback may replace the outcome afterwards with future.set_exception.)"""
    n = t.get('natural')
    if n is not None:
        return n[0] == 'success'
    return t['outcome'] is not None and t['outcome'][0] == 'ok'


def nat_exc(t):
    n = t.get('natural')
    if n is not None:
        return n[1]
    oc = t['outcome']
    return oc[1] if oc is not None and oc[0] == 'exc' else None


def user_overrode(t):
    return bool(t['spec'].get('_reenter_set_exception'))


def recs_of(w, t):
    return [r for r in w.s3.log if r.get('t') == t['idx']]


def fired_for(w, t):
    out = []
    for f in w.faults.fired:
        s = f['spec']
        if s.get('t') == t['idx'] or (s.get('key') is not None and
                                      s.get('key') in (t.get('key'), t.get('src_key'))) \
                or (s.get('dest') is not None and s.get('dest') == t.get('path')) \
                or (s.get('path') is not None and s.get('path') == t.get('path')):
            out.append(f)
    return out


def fatal_set(w, t):
    """Exceptions that fired into library code for this transfer and that the
    statement lists as fatal.  Returns (fatal exceptions, retryable fired)."""
    cfg = w.config
    fatal = []
    retry_fired = []
    per_range = {}
    for f in fired_for(w, t):
        s = f['spec']
        exc = f['exc']
        site = s['site']
        if exc is None:
            continue       # rewinds are not failures
        if site == 's3':
            if s.get('op') == 'abort_multipart_upload':
                continue
            if s.get('op') == 'get_object' and s['exc'] in RETRYABLE_KINDS:
                # a retryable error raised by the GetObject call itself counts
                # against the same attempt budget as a stream error
                retry_fired.append(exc)
                per_range.setdefault(s.get('range'), []).append(exc)
                continue
            fatal.append(exc)
        elif site == 'stream':
            if s['exc'] in RETRYABLE_KINDS:
                retry_fired.append(exc)
                per_range.setdefault(s.get('range'), []).append(exc)
            else:
                fatal.append(exc)
        elif site in ('src', 'dst'):
            fatal.append(exc)
        elif site == 'fs':
            if s.get('op') == 'remove':
                continue
            fatal.append(exc)
        elif site == 'cb':
            if s.get('kind') in ('queued', 'progress'):
                fatal.append(exc)
    exhausted = [v for v in per_range.values()
                 if len(v) >= cfg['num_download_attempts']]
    return fatal, retry_fired, exhausted


# ---------------------------------------------------------------------------

def check_kernel(w):
    f = w.sim.failure
    if f is None:
        return
    kind, msg, details = f
    if kind == 'deadlock':
        driver_blocked = any(d['tid'] == 0 for d in (details or []))
        if not driver_blocked and all(_idle_pool_worker(d) for d in details or []):
            # the driver returned and only idle pool workers remain (an
            # executor was not shut down, e.g. Ctrl-C during the final
            # joins): nothing of the manager can happen any more
            w.probe('idle-workers-left')
            w.benign_leftover = True
            return
        if driver_blocked:
            w.violation('C04', 'deadlock', msg + ' :: ' + _fmt_deadlock(details),
                        {'frames': deadlock_signature(details)})
        else:
            w.violation('C18', 'threads-left-after-driver',
                        msg + ' :: ' + _fmt_deadlock(details))
    elif kind == 'step-budget':
        w.violation('C04', 'livelock', msg)
    else:
        w.harness_errors.append((kind, msg, details))


def _idle_pool_worker(d):
    st = d.get('stack') or []
    for i, x in enumerate(st):
        if x.startswith('thread.py') and x.endswith(' _worker'):
            rest = st[i + 1:]
            return bool(rest) and rest[0].startswith('queue.py') and \
                all(y.startswith(('queue.py', 'threading.py')) for y in rest)
    return False


def _fmt_deadlock(details):
    out = []
    for d in details or []:
        st = d.get('stack') or []
        where = [x for x in st if not x.startswith('threading.py')
                 and not x.startswith('thread.py') and not x.startswith('_base.py')
                 and not x.startswith('queue.py')]
        out.append('%s(%s): %s' % (d['role'], d['tid'], ' < '.join(reversed(where[-4:]))))
    return ' | '.join(out)


def deadlock_signature(details):
    """Stable signature: sorted (role, innermost s3transfer frames)."""
    sig = []
    for d in details or []:
        st = d.get('stack') or []
        lib = [x.split(' ')[0].split(':')[0] + ':' + x.split(' ')[-1]
               for x in st if x.split(':')[0] in (
                   'futures.py', 'tasks.py', 'manager.py', 'download.py',
                   'upload.py', 'utils.py', 'copies.py', 'bandwidth.py',
                   'processpool.py', 'crt.py', '__init__.py')]
        sig.append((d['role'], tuple(lib[-3:])))
    return sorted(sig)


def check_complete_args(w):
    """C01, second sentence: every CompleteMultipartUpload the library issues
    lists parts 1..n ascending with the ETags S3 returned (S3 itself rejects
    anything else; the request is judged whether or not it succeeded)."""
    for r in w.s3.log:
        if r['op'] != 'complete_multipart_upload':
            continue
        pa = r.get('parts_arg')
        if pa is not None:
            nums = [p.get('PartNumber') for p in pa]
            if nums != list(range(1, len(nums) + 1)):
                w.violation('C01', 'part-numbering',
                            'CompleteMultipartUpload for %s lists parts as %r'
                            % (r['key'], nums), {'variant': 'order'})
        err = r.get('error')
        code = getattr(err, 'response', {}).get('Error', {}).get('Code') if err else None
        if code == 'InvalidPart':
            w.violation('C01', 'part-etag',
                        'CompleteMultipartUpload for %s rejected: %s' % (r['key'], err),
                        {'variant': 'etag'})


def check_effects(w):
    """C01 / C02 / C16 per transfer."""
    check_complete_args(w)
    for t in w.transfers:
        oc = t['outcome']
        ty = t['type']
        ok = oc is not None and oc[0] == 'ok'
        if ty in ('upload', 'copy') and ok:
            obj = w.s3.objects.get((BUCKET, t['key']))
            if obj is None:
                w.violation('C01', 'object-missing',
                            't%d %s reported success but no object exists' % (t['idx'], ty))
            elif obj != t['expect']:
                w.violation('C01', 'object-differs',
                            't%d %s success but object (%d bytes) != source (%d bytes): %r vs %r'
                            % (t['idx'], ty, len(obj), len(t['expect']),
                               _short(obj), _short(t['expect'])))
            ups = [u for u in w.s3.uploads.values()
                   if u['key'] == t['key'] and u['returned']]
            comps = [r for r in recs_of(w, t) if r['op'] == 'complete_multipart_upload']
            if ups or comps:
                if len(comps) != 1:
                    w.violation('C01', 'complete-count',
                                't%d success with %d CompleteMultipartUpload calls'
                                % (t['idx'], len(comps)))
                for c in comps:
                    pa = c.get('parts_arg')
                    if pa is None:
                        continue
                    nums = [p.get('PartNumber') for p in pa]
                    if nums != list(range(1, len(nums) + 1)):
                        w.violation('C01', 'part-numbering',
                                    't%d parts listed as %r' % (t['idx'], nums))
        if ty == 'download':
            d = t['spec']['dst']
            if d in ('nonseekable', 'fifo'):
                if d == 'nonseekable':
                    got = t['fileobj'].content()
                else:
                    got = b''.join(x[2] for x in w.fs.special[t['path']])
                if not t['expect'].startswith(got):
                    # a stream has no offsets: the order in which writes were
                    # released for it is the byte order of the object
                    w.violation('C10', 'write-order',
                                't%d stream destination was written out of the order in which '
                                'its writes were released: %r' % (t['idx'], _short(got)),
                                {'variant': 'stream'})
                    w.violation('C16', 'stream-order',
                                't%d stream destination received %r which is not a prefix of the object %r'
                                % (t['idx'], _short(got), _short(t['expect'])),
                                {'variant': _dl_variant(w, t)})
            if ok and d in ('nonseekable', 'fifo') and got != t['expect'] \
                    and t['expect'].startswith(got):
                # every byte position is written (exactly once): a stream that
                # ends early on a successful transfer left positions unwritten
                w.violation('C16', 'stream-incomplete',
                            't%d succeeded but its stream destination received only %d of %d '
                            'bytes: data that arrived was withheld or never re-requested'
                            % (t['idx'], len(got), len(t['expect'])),
                            {'variant': _dl_variant(w, t)})
            if ok:
                if d == 'path':
                    got = w.fs.files.get(t['path'])
                    got = bytes(got) if got is not None else None
                elif d == 'seekable':
                    got = bytes(t['fileobj'].buf)
                if got != t['expect']:
                    w.violation('C02', 'content-differs',
                                't%d download(%s) success but destination holds %r, object is %r'
                                % (t['idx'], d, _short(got), _short(t['expect'])),
                                {'variant': _dl_variant(w, t), 'dst': d})
                elif d == 'path' and 'dest_at_result' in t and \
                        t['dest_at_result'] != t['expect'] and not user_overrode(t):
                    # ... at the moment the future reported it (a later writer
                    # may have repaired the file since)
                    w.violation('C02', 'content-differs',
                                't%d download(path): when result() returned the destination '
                                'held %r, object is %r'
                                % (t['idx'], _short(t['dest_at_result']), _short(t['expect'])),
                                {'variant': 'at-result', 'dst': d})


def _dl_variant(w, t):
    ranged = any(r.get('Range') for r in recs_of(w, t) if r['op'] == 'get_object')
    return 'ranged' if ranged else 'single-get'


def check_c03(w):
    from s3transfer.exceptions import RetriesExceededError
    cfg = w.config
    for t in w.transfers:
        oc = t['outcome']
        if oc is None:
            continue
        fatal, retry_fired, exhausted = fatal_set(w, t)
        must_fail = bool(fatal) or bool(exhausted)
        if must_fail:
            if oc[0] == 'ok':
                w.violation('C03', 'success-despite-failure',
                            't%d %s returned normally although %s fired'
                            % (t['idx'], t['type'],
                               [repr(e)[:60] for e in fatal] or 'retry budget exhausted'))
                continue
            e = oc[1]
            good = any(e is x for x in fatal)
            if not good and isinstance(e, RetriesExceededError):
                good = any(e.last_exception is x for x in retry_fired)
            if not good and _is_cancel_exc(e) and (
                    t['cancel'] is not None or t['spec'].get('_reenter_cancel')):
                good = True
                # "... or the cancellation error if the transfer was cancelled
                # FIRST": with an exact snapshot that shows a failure already
                # recorded at every cancel of this transfer, that failure is
                # what result() has to raise
                evs = [x for x in w.cancel_events if x['t'] == t['idx']]
                if evs and all(x.get('exact') and x.get('status') == 'failed'
                               and x.get('exc_before') is not None for x in evs) \
                        and not t['spec'].get('_reenter_cancel') and not user_overrode(t):
                    w.violation('C03', 'failure-overwritten',
                                't%d had already failed with %r when it was cancelled (%s), yet '
                                'result() raises %r' % (t['idx'], evs[0]['exc_before'],
                                                        evs[0]['how'], e))
            if not good and t['spec'].get('_reenter_set_exception'):
                good = True
            if not good:
                w.violation('C03', 'foreign-exception',
                            't%d raised %r which is none of the injected failures %r'
                            % (t['idx'], e, [repr(x)[:50] for x in fatal + retry_fired]))
        # attempt budget and no retry after a non-retryable stream error
        per = {}
        for r in recs_of(w, t):
            if r['op'] == 'get_object':
                per.setdefault(r.get('Range'), []).append(r)
        for rng, rs in per.items():
            if len(rs) > cfg['num_download_attempts']:
                w.violation('C03', 'too-many-attempts',
                            't%d issued %d GetObject for range %r > num_download_attempts=%d'
                            % (t['idx'], len(rs), rng, cfg['num_download_attempts']))
            for i, r in enumerate(rs[:-1]):
                sf = r.get('stream_fault')
                bad = None
                if sf is not None and not _retryable_exc(sf):
                    bad = sf
                if r.get('fault') is not None and not _retryable_exc(r['fault']):
                    bad = r['fault']
                if bad is not None:
                    w.violation('C03', 'retried-nonretryable',
                                't%d re-requested range %r after non-retryable %r'
                                % (t['idx'], rng, bad))


def check_c17_serial(w):
    """First failure wins, end to end.  Only judged when everything ran on one
    thread (serial mode), where the order in which failures were recorded is
    the order in which the injected faults fired."""
    if not getattr(w, 'serial', False):
        return
    for t in w.transfers:
        oc = t['outcome']
        if oc is None or oc[0] != 'exc' or user_overrode(t) or t['cancel'] is not None:
            continue
        # (faults of a retryable kind are survived by the download loop: they are
        # not failures of the transfer)
        fired = [f for f in fired_for(w, t) if f['exc'] is not None and
                 f['spec']['site'] in ('s3', 'src', 'fs', 'dst') and
                 f['spec'].get('exc') not in RETRYABLE_KINDS + ('brokenpipe', 'blockingio')]
        if len(fired) >= 2 and any(oc[1] is f['exc'] for f in fired[1:]) and \
                oc[1] is not fired[0]['exc']:
            w.violation('C17', 'first-failure-overwritten',
                        't%d: %r was recorded first, result() raises the later %r'
                        % (t['idx'], fired[0]['exc'], oc[1]))


def _retryable_exc(e):
    from s3transfer.utils import S3_RETRYABLE_DOWNLOAD_ERRORS
    return isinstance(e, S3_RETRYABLE_DOWNLOAD_ERRORS)


def check_c05(w):
    for u in w.s3.uploads.values():
        t = w.t_of_key(u['key'])
        if t is None or not u['returned'] or t['outcome'] is None:
            continue
        uid = u['id']
        rs = [r for r in w.s3.log if r.get('UploadId') == uid]
        aborts = [r for r in rs if r['op'] == 'abort_multipart_upload']
        comps = [r for r in rs if r['op'] == 'complete_multipart_upload']
        others = [r for r in rs if r['op'] in ('upload_part', 'upload_part_copy',
                                               'complete_multipart_upload')]
        ok = nat_ok(t)
        if not ok and t['outcome'][0] == 'ok' and not user_overrode(t):
            # result() returns normally: for the caller the transfer succeeded,
            # whatever status the done callbacks happened to see
            ok = True
        if ok and t['outcome'][0] == 'exc' and not user_overrode(t):
            # the FUTURE reports a failure / cancellation (result() raises)
            # although the library's own status says success: for the caller
            # the transfer failed, so the upload must have been aborted
            ok = False
        done_stamp = t['outcome'][2]
        if u['completes'] > 1 or (len(comps) > 1 and u['completes'] >= 1):
            w.violation('C05', 'completed-twice',
                        '%s: %d CompleteMultipartUpload requests were issued, %d applied by the '
                        'service' % (uid, len(comps), u['completes']))
        if ok:
            if u['state'] != 'completed' or u['completes'] != 1:
                w.violation('C05', 'success-not-completed',
                            't%d succeeded but upload %s is %s (completes=%d)'
                            % (t['idx'], uid, u['state'], u['completes']))
            if aborts:
                w.violation('C05', 'abort-on-success',
                            't%d succeeded but %d abort(s) were issued for %s'
                            % (t['idx'], len(aborts), uid))
        else:
            if not aborts:
                w.violation('C05', 'orphan-upload',
                            't%d failed (%r) but no abort was issued for %s (state %s)'
                            % (t['idx'], nat_exc(t), uid, u['state']))
            elif aborts[0]['begin'] > done_stamp:
                w.violation('C05', 'abort-after-done',
                            't%d: abort for %s issued only after result() returned' % (t['idx'], uid))
        for a in aborts:
            for r in others:
                if r['begin'] > a['begin']:
                    w.violation('C05', 'request-after-abort',
                                '%s: %s begins (stamp %d) after abort began (stamp %d)'
                                % (uid, r['op'], r['begin'], a['begin']))
                elif r['end'] is None or r['end'] > a['begin']:
                    w.violation('C05', 'abort-while-in-flight',
                                '%s: abort began (stamp %d) while %s part=%s was still in flight'
                                % (uid, a['begin'], r['op'], r.get('PartNumber')))


def check_c05_hung(w):
    """'... it is never left open': in a run where nothing can run any more, a
    multipart upload whose id the library received, whose transfer is done by
    the library's own account (status failed / cancelled), and which was neither
    aborted nor completed stays open for ever."""
    f = w.sim.failure
    if f is None or f[0] != 'deadlock' or w.benign_leftover:
        return
    for u in w.s3.uploads.values():
        t = w.t_of_key(u['key'])
        if t is None or not u['returned'] or t['future'] is None or u['state'] != 'open':
            continue
        coord = t['future']._coordinator
        if coord.status not in ('failed', 'cancelled'):
            continue
        rs = [r for r in w.s3.log if r.get('UploadId') == u['id']]
        if any(r['op'] == 'abort_multipart_upload' for r in rs) or \
                any(r['end'] is None for r in rs):
            continue
        w.violation('C05', 'orphan-upload',
                    't%d is %s and nothing can run any more, but no abort was ever issued '
                    'for %s: the upload stays open' % (t['idx'], coord.status, u['id']),
                    {'variant': 'hung'})
        return


def check_c06_end(w):
    removed_failed = any(f['spec']['site'] == 'fs' and f['spec'].get('op') == 'remove'
                         for f in w.faults.fired)
    for t in w.transfers:
        if t['type'] != 'download' or t['spec']['dst'] != 'path' or t['outcome'] is None:
            continue
        p = t['path']
        if t.get('temps_at_result') and not removed_failed and not (
                t['outcome'][0] == 'exc' and isinstance(t['outcome'][1], KeyboardInterrupt)):
            w.violation('C06', 'temp-at-result',
                        't%d: result() let the caller go (%s) while temporary file(s) %r still '
                        'existed' % (t['idx'], t['outcome'][0], t['temps_at_result']))
        temps = w.fs.temps_of(p)
        if temps and not removed_failed:
            w.violation('C06', 'temp-left',
                        't%d done (%s) but temporary file(s) %r remain'
                        % (t['idx'], t['outcome'][0], temps))
        cur = w.fs.files.get(p)
        cur = bytes(cur) if cur is not None else None
        oc = t['outcome']
        if user_overrode(t):
            oc = ('ok', None) if nat_ok(t) else ('exc', nat_exc(t))
        if oc[0] == 'exc':
            if _is_cancel_exc(oc[1]):
                if cur != t['prev'] and cur != t['expect']:
                    w.violation('C06', 'dest-after-cancel',
                                't%d cancelled; destination holds %r' % (t['idx'], _short(cur)))
            elif cur != t['prev']:
                w.violation('C06', 'dest-after-failure',
                            't%d failed with %r; destination changed from %r to %r'
                            % (t['idx'], oc[1], _short(t['prev']), _short(cur)))


def check_c07(w):
    for t in w.transfers:
        ev = t['cancel']
        oc = t['outcome']
        if oc is None:
            continue
        evs = [e for e in w.cancel_events if e['t'] == t['idx']]
        nat = t.get('natural')
        # a transfer whose done callbacks saw success keeps that result
        if nat is not None and nat[0] == 'success' and oc[0] == 'exc' \
                and not user_overrode(t):
            w.violation('C07', 'finished-result-changed',
                        't%d had finished successfully (on_done saw status success) but '
                        'result() raises %r' % (t['idx'], oc[1]))
            continue
        if ev is None:
            continue
        if user_overrode(t):
            continue      # a user callback replaced the outcome explicitly
        fatal, retry_fired, exhausted = fatal_set(w, t)
        st = ev['status']
        n_calls = len(recs_of(w, t))
        if st in ('success',) and ev['exact']:
            if oc[0] != 'ok':
                w.violation('C07', 'finished-result-changed',
                            't%d was already successful when cancelled but result() raised %r'
                            % (t['idx'], oc[1]))
            continue
        if st in ('failed', 'cancelled') and ev['exact']:
            # (the final step may still complete and turn it into a success -
            # judged by the effect oracles; what may not happen is that the
            # later cancel replaces the recorded error)
            if oc[0] == 'exc' and ev.get('exc_before') is not None and \
                    oc[1] is not ev['exc_before']:
                w.violation('C07', 'finished-result-changed',
                            't%d had already %s with %r when cancelled but outcome is %r'
                            % (t['idx'], st, ev.get('exc_before'), oc[1:2]))
            continue
        # not finished at the cancel (or inexact snapshot)
        if oc[0] == 'ok':
            # raced the final step: must be fully effective (C01/C02 oracles)
            if st == 'not-started' and ev['exact']:
                w.violation('C07', 'not-started-succeeded',
                            't%d was not started when cancelled, yet succeeded' % t['idx'])
            continue
        e = oc[1]
        if _is_cancel_exc(e):
            # the error must be the one some cancellation of this transfer asked
            # for: exact class (FatalError only for a non-interrupt exception in
            # the with-block) and the given message
            allowed = [(x['exc_type'], x['msg']) for x in evs]
            if t['spec'].get('_reenter_cancel'):
                allowed.append(('CancelledError', ''))
            got = (type(e).__name__, str(e))
            if not any(got[0] == a and (m is None or got[1] == m) for a, m in allowed):
                w.violation('C07', 'cancel-type-or-message',
                            't%d finished with %s(%r); the cancellation(s) issued were %r'
                            % (t['idx'], got[0], got[1],
                               [(x['how'], a, m) for x, (a, m) in zip(evs, allowed)]))
        else:
            # With an exact snapshot the transfer was unfinished and had no
            # recorded failure at the cancel, so the cancellation IS the first
            # recorded failure: a request that fails afterwards (also the final
            # one) must not replace it.  Without an exact snapshot a fault that
            # fired may legitimately have been recorded first.
            if ev['exact'] and (not (fatal or exhausted) or (
                    st not in ('success', 'failed', 'cancelled')
                    and ev.get('exc_before') is None)):
                w.violation('C07', 'cancel-not-reported',
                            't%d was %s (no failure recorded) when cancelled via %s but '
                            'result() raised %r' % (t['idx'], st, ev['how'], e))
        if _is_cancel_exc(e):
            # "... runs its cleanups": what C05 / C06 demand after a failure
            for u in w.s3.uploads.values():
                if u['returned'] and w.t_of_key(u['key']) is t and not any(
                        r['op'] == 'abort_multipart_upload' and r.get('UploadId') == u['id']
                        for r in w.s3.log):
                    w.violation('C07', 'cleanup-missing',
                                't%d was cancelled (%s) but its multipart upload %s was never '
                                'aborted (state %s)' % (t['idx'], ev['how'], u['id'], u['state']),
                                {'variant': 'abort'})
            if t['type'] == 'download' and t['spec'].get('dst') == 'path':
                temps = w.fs.temps_of(t['path'])
                if temps:
                    w.violation('C07', 'cleanup-missing',
                                't%d was cancelled (%s) but temporary file(s) %r remain'
                                % (t['idx'], ev['how'], temps), {'variant': 'temp'})
        if st == 'not-started' and ev['exact'] and n_calls:
            w.violation('C07', 'request-after-cancel-of-not-started',
                        't%d was not started when cancelled but %d S3 request(s) were issued: %r'
                        % (t['idx'], n_calls, [r['op'] for r in recs_of(w, t)][:5]))
    se = getattr(w, 'shutdown_exc', None)
    if se is not None:
        w.violation('C07', 'shutdown-raised',
                    'manager.shutdown(%s) raised %r'
                    % (_shutdown_args(w), se[0]),
                    {'exc': type(se[0]).__name__})


def check_c08_hung(w):
    """on_done runs exactly once in EVERY outcome: in a deadlocked run (nothing
    can run any more) a transfer whose outcome is already final - status
    failed / cancelled / success - and whose subscribers never got on_done
    will never get it."""
    f = w.sim.failure
    if f is None or f[0] != 'deadlock' or w.benign_leftover:
        return
    for t in w.transfers:
        if t['future'] is None or not t['subs']:
            continue
        coord = t['future']._coordinator
        if coord.status in ('failed', 'cancelled', 'success') and \
                not any(c[1] == 'done' for c in t['callbacks']):
            ev = getattr(coord, '_done_event', None)
            if ev is not None and not ev.is_set():
                w.violation('C08', 'done-missing',
                            't%d: the outcome is final (%s) but on_done was never delivered '
                            'and nothing can run any more' % (t['idx'], coord.status))
                return


def check_c07_hung(w):
    """Cancelling makes every not-yet-finished transfer FINISH with the
    cancellation error: a run that hangs with a cancelled transfer that was
    never announced done breaks that clause (whatever else C04 says)."""
    f = w.sim.failure
    if f is None or f[0] not in ('deadlock', 'step-budget') or w.benign_leftover:
        return
    for t in w.transfers:
        if t['future'] is None or t['cancel'] is None or t['outcome'] is not None:
            continue
        ev = getattr(t['future']._coordinator, '_done_event', None)
        if ev is not None and not ev.is_set():
            c = t['cancel']
            w.violation('C07', 'cancelled-transfer-never-finishes',
                        't%d was cancelled via %s (status %s at the time) but is never announced '
                        'done: result() blocks forever' % (t['idx'], c['how'], c.get('status')))
            return


def _shutdown_args(w):
    for a in w.scenario.get('driver') or []:
        if a[0] == 'shutdown' and len(a) > 1:
            return ', '.join('%s=%r' % kv for kv in sorted(a[1].items()))
    return ''


def check_c08(w):
    for t in w.transfers:
        if t['future'] is None or t['outcome'] is None:
            continue
        rs = recs_of(w, t)
        first_req = min([r['begin'] for r in rs], default=None)
        cbs = t['callbacks']
        nsubs = len(t['subs'])
        done_stamps = [c[0] for c in cbs if c[1] == 'done']
        first_done = min(done_stamps, default=None)
        qfault_sub = None
        for f in fired_for(w, t):
            if f['spec']['site'] == 'cb' and f['spec'].get('kind') == 'queued':
                qfault_sub = f['spec'].get('sub')
        nat = t.get('natural')
        was_cancelled = (t['outcome'][0] == 'exc' and _is_cancel_exc(t['outcome'][1])) \
            or (nat is not None and nat[0] == 'cancelled')
        cancelled_unstarted = (t['cancel'] is not None or
                               t['spec'].get('_reenter_cancel')) and not rs and was_cancelled
        for si in range(nsubs):
            q = [c for c in cbs if c[1] == 'queued' and c[2] == si]
            d = [c for c in cbs if c[1] == 'done' and c[2] == si]
            if len(q) > 1:
                w.violation('C08', 'queued-twice',
                            't%d sub%d on_queued ran %d times' % (t['idx'], si, len(q)))
            if len(q) == 0:
                excused = cancelled_unstarted or (
                    qfault_sub is not None and si > qfault_sub)
                if t['cancel'] is not None and was_cancelled and not any(
                        c[1] == 'queued' for c in cbs):
                    excused = excused or not rs
                if not excused:
                    w.violation('C08', 'queued-missing',
                                't%d sub%d on_queued never ran (requests=%d, outcome=%r)'
                                % (t['idx'], si, len(rs), t['outcome'][:2]))
            for c in q:
                if first_req is not None and c[0] > first_req:
                    w.violation('C08', 'queued-after-request',
                                't%d sub%d on_queued at stamp %d after first request at %d'
                                % (t['idx'], si, c[0], first_req))
            if len(d) != 1:
                w.violation('C08', 'done-count',
                            't%d sub%d on_done ran %d times (outcome %r)'
                            % (t['idx'], si, len(d), t['outcome'][:2]))
            for c in d:
                info = c[5]
                if not info['done'] or info['event_set'] is False:
                    w.violation('C08', 'done-before-final',
                                't%d sub%d on_done entered with done()=%s, result unblocked=%s, status=%s'
                                % (t['idx'], si, info['done'], info['event_set'], info['status']))
                if info['open_requests']:
                    w.violation('C08', 'done-with-open-requests',
                                't%d sub%d on_done entered while %d request(s) of the transfer were in flight'
                                % (t['idx'], si, info['open_requests']))
        if first_done is not None:
            for c in cbs:
                if c[1] == 'progress' and c[0] > first_done:
                    w.violation('C08', 'progress-after-done',
                                't%d on_progress at stamp %d after on_done began at %d'
                                % (t['idx'], c[0], first_done))
            for r in rs:
                if r['begin'] > first_done:
                    w.violation('C08', 'request-after-done',
                                't%d %s begins at stamp %d after on_done began at %d'
                                % (t['idx'], r['op'], r['begin'], first_done))
            if t.get('path'):
                for (stamp, op, path, extra, tid) in w.fs.log:
                    if stamp > first_done and w.fs.dest_of(path) == t['path'] \
                            and t['type'] == 'download':
                        w.violation('C08', 'cleanup-after-done',
                                    't%d fs %s %s at stamp %d after on_done began at %d'
                                    % (t['idx'], op, path, stamp, first_done))
        if any((s.spec or {}).get('provide_size') is not None for s in t['subs']) \
                and t['type'] in ('download', 'copy'):
            heads = [r for r in rs if r['op'] == 'head_object']
            if heads:
                w.violation('C08', 'head-despite-size',
                            't%d issued head_object although on_queued provided the size' % t['idx'])


def check_c09(w):
    for t in w.transfers:
        oc = t['outcome']
        if oc is None or oc[0] != 'ok' or t['type'] == 'delete':
            continue
        size = len(t['expect'])
        for si in range(len(t['subs'])):
            vals = [(c[0], c[4]) for c in t['callbacks']
                    if c[1] == 'progress' and c[2] == si]
            vals.sort()
            run = 0
            for stamp, v in vals:
                run += v
                if run < 0 or run > size:
                    w.violation('C09', 'progress-out-of-bounds',
                                't%d %s sub%d running progress %d outside [0,%d] (values %r)'
                                % (t['idx'], t['type'], si, run, size,
                                   [v for _, v in vals][:40]))
                    break
            else:
                if run != size:
                    w.violation('C09', 'progress-sum',
                                't%d %s sub%d progress sums to %d, size is %d (values %r)'
                                % (t['idx'], t['type'], si, run, size,
                                   [v for _, v in vals][:40]))


def check_c10_end(w):
    from s3transfer.utils import NoResourcesAvailable
    for t in w.transfers:
        oc = t['outcome']
        if oc is not None and oc[0] == 'exc' and isinstance(oc[1], NoResourcesAvailable):
            w.violation('C10', 'submit-failed-instead-of-blocking',
                        't%d failed with %r' % (t['idx'], oc[1]))
        if t['type'] != 'download':
            continue
        fo = t['fileobj']
        ov = getattr(fo, 'overlaps', 0)
        if ov:
            w.violation('C10', 'concurrent-writes',
                        't%d destination saw %d overlapping write calls' % (t['idx'], ov))
        # queue order == write order (only writes that went through the io queue)
        subs = w.io_submits.get(id(fo)) if not isinstance(fo, str) else None
        if subs is not None:
            if hasattr(fo, 'writes'):
                seq = [(x[2], x[3]) for x in fo.writes]
            else:
                # (a write the destination accepted only in part - injected
                # BlockingIOError - is not one of the queued writes)
                seq = [(None, len(x[2])) for x in fo.chunks if len(x) < 4]
            i = 0
            for item in seq:
                while i < len(subs) and subs[i] != item:
                    i += 1
                if i >= len(subs):
                    w.violation('C10', 'write-order',
                                't%d writes %r are not in the order they were queued %r'
                                % (t['idx'], seq[:12], subs[:12]))
                    break
                i += 1


def check_c12_quiescence(w):
    m = w.manager
    if m is None or (w.sim.failure is not None and not w.benign_leftover):
        return
    cfg = w.config
    try:
        sems = [
            ('request', m._request_executor._semaphore, cfg['max_request_queue_size']),
            ('submission', m._submission_executor._semaphore, cfg['max_submission_queue_size']),
            ('io', m._io_executor._semaphore, cfg['max_io_queue_size']),
        ]
        from s3transfer.futures import IN_MEMORY_DOWNLOAD_TAG, IN_MEMORY_UPLOAD_TAG
        tags = m._request_executor._tag_semaphores
        up = tags[IN_MEMORY_UPLOAD_TAG]
        down = tags[IN_MEMORY_DOWNLOAD_TAG]
    except Exception as e:   # layout changed: cannot audit
        w.probe('c12.audit.unavailable')
        return
    for name, s, cap in sems + [('in_memory_upload', up, cfg['max_in_memory_upload_chunks'])]:
        v = s._semaphore._value
        if v != cap:
            w.violation('C12', 'permit-leak',
                        '%s semaphore at %d of %d after all transfers finished' % (name, v, cap))
    v = down.current_count()
    if v != cfg['max_in_memory_download_chunks']:
        w.violation('C12', 'permit-leak',
                    'in_memory_download window at %d of %d after all transfers finished'
                    % (v, cfg['max_in_memory_download_chunks']))
    w.sem_audit = True


def check_c18(w):
    R = w.shutdown_return
    f = w.sim.failure
    if f is not None and f[0] in ('deadlock', 'step-budget') and not w.benign_leftover:
        # usability: every earlier transfer has finished and reported its
        # outcome, and a new transfer on the same manager never finishes
        fresh = [t for t in w.transfers if t.get('fresh')]
        old = [t for t in w.transfers if not t.get('fresh')]
        if fresh and all(t['outcome'] is not None for t in old) and \
                any(t['outcome'] is None for t in fresh):
            ft = [t for t in fresh if t['outcome'] is None][0]
            w.violation('C18', 'fresh-transfer-hangs',
                        'after %d finished transfer(s) (outcomes %s) a new %s never finishes: %s'
                        % (len(old), [t['outcome'][0] for t in old], ft['type'],
                           (f[1] or '')[:200]))
    if R is None:
        return
    for t in w.transfers:
        if t['future'] is None or t.get('submitted_stamp', R) >= R:
            continue
        ev = getattr(t['future']._coordinator, '_done_event', None)
        announced = ev.is_set() if ev is not None else True
        if not t['future'].done() or not announced:
            w.violation('C18', 'not-done-at-shutdown-return',
                        't%d is not finished although shutdown returned (done()=%s, '
                        'result() would %s)' % (t['idx'], t['future'].done(),
                                                'return' if announced else 'block forever'))
    for r in w.s3.log:
        if r['begin'] > R or (r['end'] or 0) > R:
            w.violation('C18', 'request-after-shutdown',
                        '%s %s (stamps %s-%s) after shutdown returned at %d'
                        % (r['op'], r['key'], r['begin'], r['end'], R))
            break
    for (stamp, op, path, extra, tid) in w.fs.log:
        if stamp > R:
            w.violation('C18', 'fs-after-shutdown',
                        'fs %s %s at %d after shutdown returned at %d' % (op, path, stamp, R))
            break
    for t in w.transfers:
        for c in t['callbacks']:
            if c[0] > R:
                w.violation('C18', 'callback-after-shutdown',
                            't%d %s callback at %d after shutdown returned at %d'
                            % (t['idx'], c[1], c[0], R))
                break
        fo = t.get('fileobj')
        for wr in getattr(fo, 'writes', None) or getattr(fo, 'chunks', None) or []:
            if wr[0] > R:
                w.violation('C18', 'write-after-shutdown',
                            't%d destination write at %d after shutdown returned at %d'
                            % (t['idx'], wr[0], R))
                break
    if w.sim.failure is not None and not w.benign_leftover:
        return        # a hung run: only the barrier part above is meaningful
    # isolation / reusability: no own fault, no own cancel => must succeed
    for t in w.transfers:
        oc = t['outcome']
        if oc is None:
            if t['future'] is not None:
                w.violation('C18', 'no-outcome', 't%d has no outcome' % t['idx'])
            continue
        if oc[0] == 'exc' and t['cancel'] is None and not fired_for(w, t) \
                and not t['spec'].get('_reenter_set_exception') \
                and not t['spec'].get('_reenter_cancel'):
            cls = 'fresh-transfer-failed' if t.get('fresh') else 'neighbour-affected'
            w.probe('spurious-failure')
            w.violation('C18', cls,
                        't%d %s had no fault and no cancel of its own but failed with %r'
                        % (t['idx'], t['type'], oc[1]))


def check_c13_e2e(w):
    """End-to-end rate bound: bytes that moved through limited streams in any
    window between two transfer events."""
    cfg = w.config
    R = cfg.get('max_bandwidth')
    if R and w.multi:
        # (two managers: the windows below would mix their limits)  This
        # manager's only limited traffic is one consumption of a bucket that has
        # seen nothing yet; it is admitted at once whatever the other manager does
        mine = [s for s in w.bw_sleeps if s[1] in ('request', 'submission', 'io')]
        if mine:
            w.violation('C13', 'delayed-below-limit',
                        'a manager whose whole limited traffic is one body below the '
                        'batching threshold was made to wait %r s while ANOTHER manager was '
                        'transferring: the limit and its bookkeeping are per manager'
                        % ([round(s[2], 6) for s in mine][:4],),
                        {'variant': 'other-manager'})
        return
    ev = sorted(w.bw_events)
    if not R or len(ev) < 2:
        return
    thr = w.knobs.get('bw_threshold', 256 * 1024)
    maxread = {}
    for (tm, stp, n, ident) in ev:
        maxread[ident] = max(maxread.get(ident, 0), n)
    worst = None
    N = len(ev)
    if N > 400:
        return
    conc = max(1, cfg.get('max_request_concurrency', 1))
    biggest = max(maxread.values())
    for i in range(N):
        tot = 0
        act = set()
        for j in range(i, N):
            tot += ev[j][2]
            act.add(ev[j][3])
            T = ev[j][0] - ev[i][0]
            # "a few read-thresholds per ACTIVE stream".  Upload bodies are
            # charged for their tail when they are closed, so only the bodies
            # open at one time - at most max_request_concurrency, they are read
            # by request threads - hold bytes the limiter has not been asked
            # about, however many bodies come and go inside the window.  A
            # download stream is never closed by the library: each one that is
            # active in the window may keep a tail below the threshold
            # uncharged for good.
            # (with io_chunksize >= the batching threshold every download read
            # is charged - for the amount asked - before it is made: such
            # streams never hold uncharged bytes either)
            charged_first = cfg['io_chunksize'] >= thr
            ups = sum(1 for s in act if s[0] == 'up' or charged_first)
            downs = [s for s in act if s[0] != 'up' and not charged_first]
            nact = min(ups, conc) + len(downs)
            burst = 3 * (min(ups, conc) * (thr + biggest) +
                         sum(thr + maxread[s] for s in downs))
            lim = 1.25 * R * T + burst
            if tot > lim * (1 + 1e-9):
                exc = tot - lim
                if worst is None or exc > worst[0]:
                    worst = (exc, tot, T, burst, nact)
    if worst is not None:
        exc, tot, T, burst, nact = worst
        w.violation('C13', 'rate-exceeded',
                    'end-to-end: %d bytes moved in a window of %.6f s through %d limited '
                    'stream(s): more than 1.25 x %.0f x T + burst(%d)'
                    % (tot, T, nact, R, burst), {'variant': 'e2e'})


def check_c11_end(w):
    """'... buffers, each no larger than max(multipart_chunksize,
    multipart_threshold)': the part bodies of an upload from a stream are memory
    buffers; none may be larger than the chunk size the documented adjustment
    rule yields for this size (doubling only while the part count would exceed
    the limit, then clamped), or the threshold."""
    import math
    cfg = w.config
    if not cfg:
        return
    adj = w.knobs.get('adjuster') or {'max_parts': 10000, 'min_size': 5 * 1024 * 1024,
                                      'max_size': 5 * 1024 ** 3}
    for t in w.transfers:
        spec = t['spec']
        if t['type'] != 'upload' or spec.get('src') not in ('seekable', 'nonseekable'):
            continue
        size = spec.get('size', 0)
        known = spec['src'] == 'seekable' or any(
            (getattr(s_, 'spec', None) or {}).get('provide_size') is not None for s_ in t['subs'])
        cs = cfg['multipart_chunksize']
        if known and size:
            while math.ceil(size / float(cs)) > adj['max_parts']:
                cs *= 2
        cs = min(max(cs, adj['min_size']), adj['max_size'])
        limit = max(cs, cfg['multipart_threshold'])
        for r in recs_of(w, t):
            if r['op'] == 'upload_part' and (r.get('size') or 0) > limit:
                w.violation('C11', 'buffer-too-large',
                            't%d: the body of part %s holds %d bytes in memory; chunk size %d '
                            '(adjusted for %s bytes), threshold %d'
                            % (t['idx'], r.get('PartNumber'), r['size'], cs,
                               size if known else 'unknown', cfg['multipart_threshold']))
                break


ALL = [check_kernel, check_effects, check_c03, check_c05, check_c06_end,
       check_c07, check_c08, check_c09, check_c10_end, check_c12_quiescence,
       check_c18, check_c13_e2e, check_c17_serial, check_c11_end]


def evaluate(w):
    w.harness_errors = getattr(w, 'harness_errors', [])
    w.benign_leftover = False
    check_kernel(w)
    if w.sim.failure is not None and w.sim.failure[0] not in ('deadlock', 'step-budget'):
        return w
    if w.sim.thread_errors:
        w.harness_errors.append(('thread-exception', w.sim.thread_errors[0][2],
                                 w.sim.thread_errors[0][3]))
    if w.driver_exc is not None:
        w.harness_errors.append(('driver-exception', repr(w.driver_exc[0]),
                                 w.driver_exc[1]))
    if w.sim.failure is None or w.benign_leftover:
        for fn in ALL[1:]:
            fn(w)
    else:
        # a hung run: only oracles that are meaningful on partial histories
        check_effects(w)
        check_c18(w)
        check_c05_hung(w)
        check_c07_hung(w)
        check_c08_hung(w)
    return w
