"""World engine: one run = f(scenario, choices)."""
import copy

from . import gen, kernel
from .oracles import evaluate
from .world import World

NAME = 'world'
PROPS = ('C01', 'C02', 'C03', 'C04', 'C05', 'C06', 'C07', 'C08', 'C09', 'C10',
         'C11', 'C18')

REAL = ['s3transfer.manager', 's3transfer.futures', 's3transfer.tasks',
        's3transfer.upload', 's3transfer.download', 's3transfer.copies',
        's3transfer.delete', 's3transfer.utils', 's3transfer.bandwidth',
        's3transfer.subscribers',
        'stdlib threading/queue/concurrent.futures source (on simulated _thread)',
        'botocore HierarchicalEmitter, ParamValidator + S3 service model, AwsChunkedWrapper']
STUB = ['S3 service and botocore client (SimS3)', 'file system (SimFS/SimOSUtils)',
        'user streams and subscribers', 'OS scheduler and clock (kernel)',
        '_thread locks and thread start (SimLock, baton passing)']


def generate(prop, seed):
    return gen.generate(prop, seed)


def make_chooser(sc, choices=None, lenient=False):
    if choices is not None:
        return kernel.ReplayChooser(choices, lenient=lenient)
    return kernel.RandomChooser(sc.get('sched_seed', 0),
                                tuple(sc.get('strategy') or ('uniform',)))


def run_world(sc, choices=None, lenient=False):
    w = World(sc, make_chooser(sc, choices, lenient))
    w.run()
    evaluate(w)
    return w


def execute(sc, choices=None, lenient=False):
    w = run_world(sc, choices, lenient)
    return summarize(w)


def summarize(w):
    sim = w.sim
    fired = [f for f in w.faults.summary() if f['fired']]
    cancels = len(w.cancel_events)
    nontrivial = sim.multi_points >= 1 and (
        bool(fired) or w.s3.max_inflight >= 2 or cancels > 0)
    kinds = {}
    for f in w.faults.summary():
        k = f['site'] + ':' + str(f.get('op') or f.get('kind') or f.get('exc') or '')
        c = kinds.setdefault(k, [0, 0])
        c[0] += 1
        c[1] += 1 if f['fired'] else 0
    for ev in w.cancel_events:
        c = kinds.setdefault('cancel:' + ev['how'], [0, 0])
        c[0] += 1
        c[1] += 1
    nst = len(w.knobs.get('stalls') or [])
    if nst:
        kinds['stalled-thread'] = [nst, sim.stalls]
    if w.knobs.get('fs_latency', 'none') != 'none':
        kinds['slow-fs-call:' + w.knobs['fs_latency']] = [1, 1 if getattr(w.fs, 'slow_calls', 0) else 0]
    if sim.interrupts_delivered:
        c = kinds.setdefault('ctrl-c', [0, 0])
        c[0] += sim.interrupts_delivered
        c[1] += sim.interrupts_delivered
    harness = [(k, m) for (k, m, d) in w.harness_errors]
    return {
        'steps': sim.steps, 'switches': sim.switches, 'digest': sim.digest,
        'multi_points': sim.multi_points, 'max_runnable': sim.max_runnable,
        'sim_time': sim.now - sim.epoch, 'threads': len(sim.threads),
        'violations': [list(v) for v in w.violations],
        'harness': harness,
        'harness_detail': [str(d)[-3000:] for (k, m, d) in w.harness_errors][:1],
        'fault_kinds': kinds,
        'probes': dict(w.probes),
        'nontrivial': nontrivial,
        'requests': len(w.s3.log),
        'states': [hash_state(s) for s in w.abstract_states],
        'trace': sim.trace,
        'strategy': (w.scenario.get('strategy') or ['?'])[0],
        'outcomes': [(t['type'], t['outcome'][0] if t['outcome'] else None)
                     for t in w.transfers],
    }


def hash_state(s):
    import zlib
    return zlib.crc32(repr(s).encode())


def sample_of(sc, res):
    return {'transfers': sc['transfers'], 'config': sc['config'],
            'faults': sc.get('faults'), 'driver': sc.get('driver'),
            'strategy': sc.get('strategy'),
            'first_choices': res['trace'][:40], 'steps': res['steps'],
            'outcomes': res['outcomes']}


def shrink_candidates(sc):
    """Smaller scenarios, most aggressive first."""
    n = len(sc['transfers'])
    live = [i for i, t in enumerate(sc['transfers']) if t['type'] != 'skip']
    if len(live) > 1:
        for i in live:
            c = copy.deepcopy(sc)
            c['transfers'][i] = {'type': 'skip', 'size': 0}
            c['faults'] = [f for f in c.get('faults', []) if not _fault_of(f, i)]
            yield c
    for j in range(len(sc.get('faults') or [])):
        c = copy.deepcopy(sc)
        del c['faults'][j]
        yield c
    for i in live:
        t = sc['transfers'][i]
        if len(t.get('subs') or []) > 1:
            c = copy.deepcopy(sc)
            c['transfers'][i]['subs'] = [s for s in t['subs'] if s] or [{}]
            if c['transfers'][i]['subs'] != t['subs']:
                yield c
    k = sc.get('knobs', {})
    for key, val in (('latency', 'none'), ('short_reads', False),
                     ('pre_read', False), ('sign_read', False),
                     ('chunked', False)):
        if k.get(key) not in (None, val):
            c = copy.deepcopy(sc)
            c['knobs'][key] = val
            yield c


def _fault_of(f, i):
    keys = ('k%d' % i, 'o%d' % i, 'src%d' % i, 'del%d' % i)
    return f.get('t') == i or f.get('key') in keys or \
        str(f.get('dest') or f.get('path') or '').rstrip('0123456789') + str(i) == \
        str(f.get('dest') or f.get('path') or '?')
