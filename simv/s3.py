"""SimS3: the S3 service and the botocore client in one in-process object.

Every call is a pair of scheduling points (begin/end) with optional virtual
latency and faults before or after the effect; request bodies are pulled with
botocore's real protocol (request-created event, optional signing read,
socket-sized reads, reset_stream + re-send on client-level retry); response
bodies return at most the requested amount (short reads) and may fail at any
byte.
"""
import base64
import hashlib
import re
import types
import zlib

from botocore.exceptions import ClientError, ParamValidationError
from botocore.hooks import HierarchicalEmitter
from botocore.httpchecksum import AwsChunkedWrapper, Crc32Checksum

from .faults import make_exc

_SERVICE_MODEL = None
_VALIDATOR = None


def _service_model():
    global _SERVICE_MODEL, _VALIDATOR
    if _SERVICE_MODEL is None:
        import botocore.session
        from botocore.validate import ParamValidator
        _SERVICE_MODEL = botocore.session.get_session().get_service_model('s3')
        _VALIDATOR = ParamValidator()
    return _SERVICE_MODEL


_OPNAMES = {
    'head_object': 'HeadObject', 'get_object': 'GetObject',
    'put_object': 'PutObject', 'create_multipart_upload': 'CreateMultipartUpload',
    'upload_part': 'UploadPart', 'upload_part_copy': 'UploadPartCopy',
    'complete_multipart_upload': 'CompleteMultipartUpload',
    'abort_multipart_upload': 'AbortMultipartUpload',
    'copy_object': 'CopyObject', 'delete_object': 'DeleteObject',
}
DATA_OPS = ('put_object', 'upload_part', 'get_object', 'copy_object',
            'upload_part_copy', 'delete_object', 'create_multipart_upload',
            'complete_multipart_upload')


def client_error(code, msg, op):
    return ClientError({'Error': {'Code': code, 'Message': msg},
                        'ResponseMetadata': {'HTTPStatusCode': 400}}, op)


def crc32_b64(data):
    return base64.b64encode(
        (zlib.crc32(data) & 0xffffffff).to_bytes(4, 'big')).decode('ascii')


def decode_aws_chunked(raw):
    """Decode an aws-chunked body; returns (payload, trailers dict)."""
    pos = 0
    out = bytearray()
    while True:
        nl = raw.index(b'\r\n', pos)
        size = int(raw[pos:nl].split(b';')[0], 16)
        pos = nl + 2
        if size == 0:
            break
        out += raw[pos:pos + size]
        pos += size
        if raw[pos:pos + 2] != b'\r\n':
            raise ValueError('bad aws-chunked framing')
        pos += 2
    trailers = {}
    for line in raw[pos:].split(b'\r\n'):
        if line:
            k, _, v = line.partition(b':')
            trailers[k.decode()] = v.decode()
    return bytes(out), trailers


class SimStreamingBody:
    """Response body: read(amt) returns at most amt bytes; faults by byte."""

    def __init__(self, s3, rec, data, stream_faults, short_mode):
        self._s3 = s3
        self._rec = rec
        self._data = data
        self._pos = 0
        self._faults = stream_faults      # list of specs sorted by 'at'
        self._short = short_mode
        self._closed = False
        self.reads = 0

    def read(self, amt=None):
        s3 = self._s3
        sim = s3.sim
        rec = self._rec
        s3._stream_enter(rec)
        try:
            sim.spoint('s3.stream.read')
            self.reads += 1
            remaining = len(self._data) - self._pos
            if amt is None or amt < 0:
                amt = remaining
            n = min(amt, remaining)
            # a fault at byte b fires when the read would reach or pass b
            for f in self._faults:
                if f['_fired']:
                    continue
                at = min(f['at'], len(self._data))
                if at <= self._pos:
                    # fault exactly here: raise now
                    exc = make_exc(f['exc'], f['id'])
                    s3.faults.record(f, exc, sim.stamp(), key=rec['key'],
                                     pos=self._pos)
                    rec['stream_outcome'] = 'fault'
                    rec['stream_fault'] = exc
                    s3._stream_done(rec)
                    raise exc
                if at < self._pos + n:
                    n = at - self._pos      # short read up to the fault byte
                break
            if n > 1 and self._short:
                # short read: any size in 1..n (never empty before EOF)
                k = sim.choose(min(n, 4), 'short')
                if k == 1:
                    n = 1
                elif k == 2:
                    n = max(1, n // 2)
                elif k == 3:
                    n = n - 1
            out = self._data[self._pos:self._pos + n]
            self._pos += n
            rec['delivered'] = self._pos
            if n:
                s3.world.on_bytes_moved('down', (rec['key'], rec.get('Range'),
                                                 rec.get('attempt')), n)
            if not out and self._pos >= len(self._data):
                rec['stream_outcome'] = 'eof'
                s3._stream_done(rec)
            return out
        finally:
            s3._stream_leave(rec)

    def close(self):
        self._closed = True
        self._s3._stream_done(self._rec)

    def __del__(self):
        try:
            self._s3._stream_done(self._rec)
        except Exception:
            pass


class _Meta:
    def __init__(self, checksum_calc):
        self.events = HierarchicalEmitter()
        self.config = types.SimpleNamespace(
            request_checksum_calculation=checksum_calc)
        self.region_name = 'sim-1'
        self.service_model = None


class SimS3:
    def __init__(self, world, knobs):
        self.world = world
        self.sim = world.sim
        self.faults = world.faults
        self.knobs = knobs
        self.objects = {}          # (bucket, key) -> bytes
        self.uploads = {}          # upload id -> dict
        self.log = []              # call records, in begin order
        self.meta = _Meta(knobs.get('checksum_calc', 'when_required'))
        self._upload_seq = 0
        self._etag_seq = 0
        self.inflight = {}         # thread tid -> rec   (data requests)
        self.inflight_head = {}    # thread tid -> rec
        self.max_inflight = 0
        self.max_inflight_head = 0
        self.validate = knobs.get('validate_params', True)
        self._get_attempts = {}
        self.meta.events.register('request-created.s3', self._signing_handler,
                                  unique_id='sim-signing')
        _service_model()

    # ---- bookkeeping --------------------------------------------------------
    def _begin(self, op, kwargs):
        sim = self.sim
        cur = sim.current
        rec = {'op': op, 'key': kwargs.get('Key'), 'bucket': kwargs.get('Bucket'),
               'begin': sim.stamp(), 'end': None, 'tid': cur.tid,
               'role': cur.role, 'outcome': None, 'step': sim.steps,
               'idx': len(self.log)}
        for k in ('UploadId', 'PartNumber', 'Range', 'CopySourceRange'):
            if k in kwargs:
                rec[k] = kwargs[k]
        self.log.append(rec)
        t = self.world.t_of_key(rec['key'])
        if t is not None:
            rec['t'] = t['idx']
        if op in DATA_OPS:
            self.inflight[cur.tid] = rec
            n = len(self.inflight)
            if n > self.max_inflight:
                self.max_inflight = n
            self.world.on_request_begin(rec, n)
        elif op == 'head_object':
            self.inflight_head[cur.tid] = rec
            n = len(self.inflight_head)
            if n > self.max_inflight_head:
                self.max_inflight_head = n
            self.world.on_head_begin(rec, n)
        return rec

    def _end(self, rec, outcome, keep_stream=False):
        rec['end'] = self.sim.stamp()
        rec['outcome'] = outcome
        if not keep_stream:
            if self.inflight.get(rec['tid']) is rec:
                del self.inflight[rec['tid']]
            if self.inflight_head.get(rec['tid']) is rec:
                del self.inflight_head[rec['tid']]

    def _stream_done(self, rec):
        if rec.get('stream_end') is None:
            rec['stream_end'] = self.sim.stamp()
        if self.inflight.get(rec['tid']) is rec:
            del self.inflight[rec['tid']]

    def _stream_enter(self, rec):
        rec['in_read'] = rec.get('in_read', 0) + 1

    def _stream_leave(self, rec):
        rec['in_read'] -= 1

    def _validate(self, op, kwargs):
        if not self.validate:
            return
        src = kwargs.get('CopySource')
        if isinstance(src, dict):
            # botocore's handle_copy_source_param (before-parameter-build)
            kwargs = dict(kwargs)
            s = '%s/%s' % (src['Bucket'], src['Key'])
            if src.get('VersionId') is not None:
                s += '?versionId=%s' % src['VersionId']
            kwargs['CopySource'] = s
        shape = _SERVICE_MODEL.operation_model(_OPNAMES[op]).input_shape
        report = _VALIDATOR.validate(kwargs, shape)
        if report.has_errors():
            raise ParamValidationError(report=report.generate_report())

    def _call(self, op, kwargs, effect, match=None, body_phase=None):
        """Common shape of every API call."""
        self._validate(op, kwargs)
        sim = self.sim
        rec = self._begin(op, kwargs)
        m = {'op': op, 'key': kwargs.get('Key')}
        if match:
            m.update(match)
        try:
            sim.spoint('s3.%s.b' % op)
            lat = self.world.latency(op, m)
            if lat:
                sim.sleep(lat)
            payload = None
            if body_phase is not None:
                payload = body_phase(rec)
            f = self.faults.hit('s3', **m)
            if f is not None and f.get('when', 'before') == 'before':
                exc = make_exc(f['exc'], f['id'])
                self.faults.record(f, exc, sim.stamp(), **m)
                rec['fault'] = exc
                self._end(rec, 'fault-before')
                raise exc
            try:
                result = effect(payload, rec) if body_phase is not None \
                    else effect(rec)
            except ClientError as e:
                rec['error'] = e
                self._end(rec, 'error')
                raise
            if f is not None:
                exc = make_exc(f['exc'], f['id'])
                self.faults.record(f, exc, sim.stamp(), **m)
                rec['fault'] = exc
                rec['applied'] = True
                self._end(rec, 'fault-after')
                raise exc
            sim.spoint('s3.%s.e' % op)
            self._end(rec, 'ok', keep_stream=(op == 'get_object'))
            return result
        except BaseException:
            if rec['end'] is None:
                self._end(rec, 'exception')
            raise

    # ---- request bodies ---------------------------------------------------------
    def _signing_handler(self, request, operation_name, **kwargs):
        if operation_name not in ('PutObject', 'UploadPart'):
            return
        if not self.knobs.get('sign_read'):
            return
        body = request.body
        if isinstance(body, AwsChunkedWrapper) or not hasattr(body, 'read'):
            return
        # payload hashing: read everything, seek back
        while True:
            self.sim.spoint('s3.sign.read')
            b = body.read(self.knobs.get('sign_chunk', 1 << 20))
            if not b:
                break
        body.seek(0)

    def _body_phase(self, op, kwargs, part):
        body = kwargs.get('Body', b'')
        key = kwargs.get('Key')
        knobs = self.knobs

        def phase(rec):
            sim = self.sim
            if not hasattr(body, 'read'):
                return bytes(body)
            if knobs.get('pre_read'):
                # botocore's md5/flexible-checksum pre-pass: tell, read all,
                # seek back
                start = body.tell()
                while True:
                    sim.spoint('s3.pre.read')
                    if not body.read(knobs.get('sign_chunk', 1 << 20)):
                        break
                body.seek(start)
            wrapped = body
            chunked = bool(knobs.get('chunked'))
            if chunked:
                wrapped = AwsChunkedWrapper(
                    body, checksum_cls=Crc32Checksum,
                    checksum_name='x-amz-checksum-crc32',
                    chunk_size=knobs.get('aws_chunk_size', 1 << 20))
            request = types.SimpleNamespace(body=wrapped, method='PUT',
                                            url='https://sim/' + str(key))
            spec = self.faults.hit('rewind', op=op, key=key, part=part)
            cuts = list(spec['at']) if spec is not None else []
            nfired = 0
            sock = knobs.get('sock_chunk', 8192)
            attempt = 0
            reads = []
            rec['body_reads'] = reads
            while True:
                self.meta.events.emit('request-created.s3.%s' % _OPNAMES[op],
                                      request=request,
                                      operation_name=_OPNAMES[op])
                data = bytearray()
                cut = cuts[attempt] if attempt < len(cuts) else None
                did_cut = False
                while True:
                    n = sock
                    if cut is not None and len(data) + n > cut:
                        n = cut - len(data)
                        if n <= 0:
                            did_cut = True
                            break
                    sim.spoint('s3.body.read')
                    b = wrapped.read(n)
                    reads.append((attempt, len(b)))
                    if b:
                        self.world.on_bytes_moved('up', (key, part), len(b))
                    if not b:
                        break
                    data += b
                if did_cut:
                    # client-level retry: reset_stream(), new request
                    nfired += 1
                    wrapped.seek(0)
                    attempt += 1
                    continue
                break
            if spec is not None:
                self.faults.record(spec, None, sim.stamp(), op=op, key=key,
                                   part=part, rewinds=nfired)
            rec['attempts'] = attempt + 1
            if chunked:
                payload, trailers = decode_aws_chunked(bytes(data))
                want = crc32_b64(payload)
                got = trailers.get('x-amz-checksum-crc32')
                if got != want:
                    raise client_error('BadDigest', 'trailer checksum mismatch',
                                       _OPNAMES[op])
                return payload
            return bytes(data)
        return phase

    # ---- API --------------------------------------------------------------------
    def head_object(self, **kwargs):
        def effect(rec):
            k = (kwargs['Bucket'], kwargs['Key'])
            if kwargs.get('VersionId') is not None:
                v = getattr(self, 'versions', {}).get(k + (kwargs['VersionId'],))
                if v is None:
                    raise client_error('404', 'Not Found', 'HeadObject')
                return {'ContentLength': len(v), 'ETag': '"obj"', 'ResponseMetadata': {}}
            if k not in self.objects:
                raise client_error('404', 'Not Found', 'HeadObject')
            return {'ContentLength': len(self.objects[k]),
                    'ETag': '"obj"', 'ResponseMetadata': {}}
        return self._call('head_object', kwargs, effect)

    def get_object(self, **kwargs):
        def effect(rec):
            k = (kwargs['Bucket'], kwargs['Key'])
            if k not in self.objects:
                raise client_error('NoSuchKey', 'no such key', 'GetObject')
            data = self.objects[k]
            rng = kwargs.get('Range')
            start = 0
            if rng is not None:
                m = re.match(r'^bytes=(\d+)-(\d*)$', rng)
                if not m:
                    raise client_error('InvalidRange', rng, 'GetObject')
                start = int(m.group(1))
                end = int(m.group(2)) if m.group(2) else len(data) - 1
                if start >= len(data) and len(data) > 0:
                    raise client_error('InvalidRange', rng, 'GetObject')
                data = data[start:end + 1]
            att = self._get_attempts.get((k, rng), 0)
            self._get_attempts[(k, rng)] = att + 1
            rec['attempt'] = att
            rec['range_start'] = start
            rec['range_len'] = len(data)
            sf = [f for f in self.faults.peek('stream', key=kwargs['Key'],
                                              range=rng, attempt=att)
                  if not f['_fired']]
            sf.sort(key=lambda f: f['at'])
            body = SimStreamingBody(self, rec, data, sf,
                                    self.knobs.get('short_reads', False))
            return {'Body': body, 'ContentLength': len(data), 'ETag': '"obj"',
                    'ResponseMetadata': {}}
        return self._call('get_object', kwargs, effect,
                          match={'range': kwargs.get('Range')})

    def put_object(self, **kwargs):
        def effect(payload, rec):
            if kwargs.get('ChecksumCRC32') not in (None, crc32_b64(payload)):
                raise client_error('BadDigest', 'the CRC32 you specified did not match the '
                                   'calculated checksum', 'PutObject')
            self.objects[(kwargs['Bucket'], kwargs['Key'])] = payload
            rec['size'] = len(payload)
            self.world.on_object_written(kwargs['Key'], rec)
            r = {'ETag': '"put"', 'ResponseMetadata': {}}
            if kwargs.get('ChecksumAlgorithm', '').upper() == 'CRC32':
                r['ChecksumCRC32'] = crc32_b64(payload)
            return r
        return self._call('put_object', kwargs, effect,
                          body_phase=self._body_phase('put_object', kwargs, None))

    def create_multipart_upload(self, **kwargs):
        def effect(rec):
            self._upload_seq += 1
            uid = 'upload-%d' % self._upload_seq
            self.uploads[uid] = {
                'id': uid, 'bucket': kwargs['Bucket'], 'key': kwargs['Key'],
                'state': 'open', 'parts': {}, 'completes': 0, 'aborts': 0,
                'algo': kwargs.get('ChecksumAlgorithm'), 'created': rec['begin'],
                'returned': False}
            rec['UploadId'] = uid
            return {'UploadId': uid, 'ResponseMetadata': {}}
        r = self._call('create_multipart_upload', kwargs, effect)
        self.uploads[r['UploadId']]['returned'] = True
        return r

    def _open_upload(self, kwargs, op):
        u = self.uploads.get(kwargs['UploadId'])
        if u is None or u['state'] != 'open' or u['key'] != kwargs['Key']:
            raise client_error('NoSuchUpload', str(kwargs['UploadId']), op)
        return u

    def upload_part(self, **kwargs):
        pn = kwargs['PartNumber']

        def effect(payload, rec):
            u = self._open_upload(kwargs, 'UploadPart')
            self._etag_seq += 1
            etag = '"%s"' % hashlib.md5(bytes(payload)).hexdigest()
            part = {'etag': etag, 'data': payload, 'stamp': rec['begin']}
            r = {'ETag': etag, 'ResponseMetadata': {}}
            if kwargs.get('ChecksumAlgorithm', '').upper() == 'CRC32':
                part['ChecksumCRC32'] = crc32_b64(payload)
                r['ChecksumCRC32'] = part['ChecksumCRC32']
            u['parts'][pn] = part
            rec['size'] = len(payload)
            return r
        return self._call('upload_part', kwargs, effect, match={'part': pn},
                          body_phase=self._body_phase('upload_part', kwargs, pn))

    def _copy_source(self, kwargs, op):
        src = kwargs['CopySource']
        vid = None
        if isinstance(src, dict):
            k = (src['Bucket'], src['Key'])
            vid = src.get('VersionId')
        else:
            b, _, key = src.partition('/')
            key, _, q = key.partition('?versionId=')
            vid = q or None
            k = (b, key)
        if vid is not None:
            # a named (non-current) version of the source object
            v = getattr(self, 'versions', {}).get(k + (vid,))
            if v is None:
                raise client_error('NoSuchVersion', 'copy source version missing', op)
            return v
        if k not in self.objects:
            raise client_error('NoSuchKey', 'copy source missing', op)
        return self.objects[k]

    def upload_part_copy(self, **kwargs):
        pn = kwargs['PartNumber']

        def effect(rec):
            u = self._open_upload(kwargs, 'UploadPartCopy')
            data = self._copy_source(kwargs, 'UploadPartCopy')
            rng = kwargs.get('CopySourceRange')
            if rng is not None:
                m = re.match(r'^bytes=(\d+)-(\d+)$', rng)
                if not m:
                    raise client_error('InvalidArgument', 'bad CopySourceRange %r' % rng,
                                       'UploadPartCopy')
                a, b = int(m.group(1)), int(m.group(2))
                if b >= len(data) or a > b:
                    raise client_error('InvalidArgument', 'range out of bounds %r' % rng,
                                       'UploadPartCopy')
                data = data[a:b + 1]
            self._etag_seq += 1
            etag = '"%s"' % hashlib.md5(bytes(data)).hexdigest()
            part = {'etag': etag, 'data': data, 'stamp': rec['begin']}
            res = {'ETag': etag}
            if (u.get('algo') or '').upper() == 'CRC32':
                part['ChecksumCRC32'] = crc32_b64(data)
                res['ChecksumCRC32'] = part['ChecksumCRC32']
            u['parts'][pn] = part
            rec['size'] = len(data)
            return {'CopyPartResult': res, 'ResponseMetadata': {}}
        return self._call('upload_part_copy', kwargs, effect, match={'part': pn})

    def complete_multipart_upload(self, **kwargs):
        def effect(rec):
            u0 = self.uploads.get(kwargs['UploadId'])
            if u0 is not None and u0['state'] == 'completed' and u0['key'] == kwargs['Key'] \
                    and self.knobs.get('complete_idempotent'):
                # S3 answers a repeated CompleteMultipartUpload of an upload it
                # has just completed with 200 OK again
                u0['completes'] += 1
                rec['parts_arg'] = [dict(p) for p in
                                    kwargs.get('MultipartUpload', {}).get('Parts', [])]
                return {'ETag': '"mpu"', 'ResponseMetadata': {}}
            u = self._open_upload(kwargs, 'CompleteMultipartUpload')
            parts = kwargs.get('MultipartUpload', {}).get('Parts', [])
            rec['parts_arg'] = [dict(p) for p in parts]
            if not parts:
                raise client_error('MalformedXML', 'no parts', 'CompleteMultipartUpload')
            last = 0
            blob = bytearray()
            min_part = self.knobs.get('min_part_size', 0)
            for i, p in enumerate(parts):
                pn = p['PartNumber']
                if pn <= last:
                    raise client_error('InvalidPartOrder', 'parts not ascending',
                                       'CompleteMultipartUpload')
                last = pn
                stored = u['parts'].get(pn)
                if stored is None or stored['etag'] != p.get('ETag'):
                    raise client_error('InvalidPart', 'part %s etag mismatch' % pn,
                                       'CompleteMultipartUpload')
                if 'ChecksumCRC32' in stored or 'ChecksumCRC32' in p:
                    if u.get('algo') and stored.get('ChecksumCRC32') != p.get('ChecksumCRC32'):
                        raise client_error(
                            'InvalidPart', 'part %s checksum mismatch' % pn,
                            'CompleteMultipartUpload')
                if min_part and i < len(parts) - 1 and len(stored['data']) < min_part:
                    raise client_error('EntityTooSmall', 'part %s too small' % pn,
                                       'CompleteMultipartUpload')
                blob += stored['data']
            if kwargs.get('ChecksumCRC32') not in (None, crc32_b64(bytes(blob))):
                raise client_error('BadDigest', 'the full object CRC32 you specified did not '
                                   'match the calculated checksum', 'CompleteMultipartUpload')
            if kwargs.get('MpuObjectSize') not in (None, len(blob)):
                raise client_error('InvalidRequest', 'MpuObjectSize does not match the object',
                                   'CompleteMultipartUpload')
            u['state'] = 'completed'
            u['completes'] += 1
            u['completed_parts'] = [(p['PartNumber'], len(u['parts'][p['PartNumber']]['data']))
                                    for p in parts]
            self.objects[(kwargs['Bucket'], kwargs['Key'])] = bytes(blob)
            self.world.on_object_written(kwargs['Key'], rec)
            return {'ETag': '"mpu"', 'ResponseMetadata': {}}
        return self._call('complete_multipart_upload', kwargs, effect)

    def abort_multipart_upload(self, **kwargs):
        def effect(rec):
            u = self.uploads.get(kwargs['UploadId'])
            if u is None:
                raise client_error('NoSuchUpload', str(kwargs['UploadId']),
                                   'AbortMultipartUpload')
            u['aborts'] += 1
            if u['state'] == 'open':
                u['state'] = 'aborted'
            elif u['state'] == 'completed':
                raise client_error('NoSuchUpload', 'already completed',
                                   'AbortMultipartUpload')
            return {'ResponseMetadata': {}}
        return self._call('abort_multipart_upload', kwargs, effect)

    def copy_object(self, **kwargs):
        def effect(rec):
            data = self._copy_source(kwargs, 'CopyObject')
            self.objects[(kwargs['Bucket'], kwargs['Key'])] = data
            rec['size'] = len(data)
            self.world.on_object_written(kwargs['Key'], rec)
            return {'CopyObjectResult': {'ETag': '"copy"'}, 'ResponseMetadata': {}}
        return self._call('copy_object', kwargs, effect)

    def delete_object(self, **kwargs):
        def effect(rec):
            self.objects.pop((kwargs['Bucket'], kwargs['Key']), None)
            return {'ResponseMetadata': {}}
        return self._call('delete_object', kwargs, effect)
