"""Put the real s3transfer modules under the simulator (harness-side only).

Module globals (`threading`, `time`, `random`, `futures`) of the s3transfer
modules are rebound to the simulated ones; nothing in /repo is edited.
"""
import os
import sys

from . import kernel, simstd

REPO = os.environ.get('VERIF_REPO', '/repo')
_installed = False


class _RunRandom:
    """`random` as seen by s3transfer.utils: temp-file suffixes come from the
    run's own PRNG (set by the world at run start)."""

    def __init__(self):
        import random
        self._r = random.Random(0)

    def seed(self, s):
        self._r.seed(s)

    def choice(self, seq):
        return self._r.choice(seq)

    def __getattr__(self, k):
        return getattr(self._r, k)


run_random = _RunRandom()


def install():
    global _installed
    if _installed:
        return
    repo = os.path.realpath(REPO)
    sys.path.insert(0, repo)
    for k in [k for k in sys.modules if k == 's3transfer' or k.startswith('s3transfer.')]:
        del sys.modules[k]
    mods = ('s3transfer', 's3transfer.compat', 's3transfer.exceptions', 's3transfer.constants',
            's3transfer.utils', 's3transfer.futures', 's3transfer.tasks',
            's3transfer.subscribers', 's3transfer.bandwidth', 's3transfer.upload',
            's3transfer.download', 's3transfer.copies', 's3transfer.delete',
            's3transfer.manager', 's3transfer.processpool')
    import importlib
    # (1) a plain import first, so that every dependency outside the package
    # (botocore, multiprocessing, ...) is loaded with the real standard modules
    for m in mods:
        importlib.import_module(m)
    # (2) the package itself is executed again with the simulated threading /
    # queue / concurrent.futures / time in sys.modules, so that also objects it
    # creates at import time (module- or class-level locks, default arguments)
    # belong to the simulator
    for k in [k for k in sys.modules if k == 's3transfer' or k.startswith('s3transfer.')]:
        del sys.modules[k]
    from . import fs as _fs
    swap = {'os': _fs.sim_os, 'shutil': _fs.sim_shutil,
            'threading': simstd.simthreading, 'queue': simstd.simqueue,
            'concurrent': simstd.sim_concurrent, 'concurrent.futures': simstd.sim_cf,
            'time': simstd.sim_time}
    saved = {k: sys.modules.get(k) for k in swap}
    sys.modules.update(swap)
    try:
        for m in mods:
            importlib.import_module(m)
    finally:
        for k, v in saved.items():
            if v is None:
                sys.modules.pop(k, None)
            else:
                sys.modules[k] = v
    import s3transfer
    got = os.path.realpath(os.path.dirname(os.path.dirname(s3transfer.__file__)))
    if got != repo:
        raise RuntimeError('s3transfer imported from %s, wanted %s' % (got, repo))
    import s3transfer.bandwidth
    import s3transfer.copies
    import s3transfer.delete
    import s3transfer.download
    import s3transfer.futures
    import s3transfer.manager
    import s3transfer.tasks
    import s3transfer.upload
    import s3transfer.utils

    th = simstd.simthreading
    for m in (s3transfer.futures, s3transfer.utils, s3transfer.manager,
              s3transfer.download, s3transfer.bandwidth):
        m.threading = th
    s3transfer.futures.futures = simstd.sim_cf
    s3transfer.futures.BoundedExecutor.EXECUTOR_CLS = simstd.sim_cf.ThreadPoolExecutor
    s3transfer.bandwidth.time = simstd.sim_time
    s3transfer.utils.random = run_random
    simstd.give_seq_hash(s3transfer.futures.ExecutorFuture)
    simstd.give_seq_hash(s3transfer.futures.TransferCoordinator)
    simstd.give_seq_hash(s3transfer.bandwidth.RequestToken)
    _installed = True


def install_legacy():
    """Seams for the legacy S3Transfer module (s3transfer/__init__.py)."""
    install()
    import s3transfer
    th = simstd.simthreading
    s3transfer.threading = th
    s3transfer.concurrent = simstd.sim_concurrent
    s3transfer.queue = simstd.simqueue
    s3transfer.random = run_random
    # ShutdownQueue subclasses the real queue.Queue; rebase it on the simulated one
    if s3transfer.ShutdownQueue.__bases__[0] is not simstd.simqueue.Queue:
        s3transfer.ShutdownQueue.__bases__ = (simstd.simqueue.Queue,)
    for cls in (s3transfer.MultipartUploader, s3transfer.MultipartDownloader):
        d = cls.__init__.__defaults__
        if d:
            cls.__init__.__defaults__ = tuple(
                simstd.sim_cf.ThreadPoolExecutor
                if getattr(x, '__name__', '') == 'ThreadPoolExecutor' else x
                for x in d)
