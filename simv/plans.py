"""Which engine(s) decide which property, and with what budget."""
from . import runner

# runs: number of seeded simulated runs; cap_s: wall-clock cap of the exploration


def W(q, t, **kw):
    return {'quick': dict({'runs': q, 'cap_s': 75, 'batch': 250}, **kw),
            'thorough': dict({'runs': t, 'cap_s': 1200, 'batch': 500}, **kw)}


WORLD = W(40000, 1200000)

PLANS = {}
for _p in ('C01', 'C02', 'C03', 'C04', 'C05', 'C06', 'C07', 'C08', 'C09',
           'C10', 'C11', 'C18'):
    PLANS[_p] = [('world', WORLD)]

# C12: focused semaphore programs, then the quiescence audit of end-to-end runs
PLANS['C12'] = [('sem', W(100000, 4000000, batch=1000)),
                ('world', W(12000, 300000, gen_prop='C04'))]

# C16: focused delivery histories, then end-to-end non-seekable downloads
PLANS['C16'] = [('defer', W(80000, 3000000, batch=1000)),
                ('world', W(20000, 500000, gen_prop='C16'))]
PLANS['C13'] = [('bw', W(80000, 3000000, batch=1000)),
                ('world', W(10000, 300000, gen_prop='C13'))]
PLANS['C19'] = [('pp', W(80000, 2000000, batch=500))]
PLANS['C02'].append(('pp', W(15000, 400000, batch=500)))
PLANS['C06'].append(('pp', W(15000, 400000, batch=500)))
PLANS['C20'] = [('crt', W(80000, 2000000, batch=500))]
for _p in ('C01', 'C02', 'C05', 'C06'):
    PLANS[_p].append(('legacy', W(12000, 400000, batch=500)))
# C07 also has a focused stage: the coordinator with a thread blocked in result()
# while cancels race the final task, statement-level pre-emption on
PLANS['C07'] = PLANS['C07'] + [('coord', W(20000, 600000, batch=1000))]
PLANS['C17'] = [('coord', W(150000, 5000000, batch=1000)),
                ('world', W(6000, 200000, gen_prop='C17'))]


def run(prop, tier, runs=None, cap=None):
    if prop not in PLANS:
        print('HARNESS-ERROR: no check for property %s' % prop)
        return runner.EXIT_HARNESS
    stages = []
    for eng, plan in PLANS[prop]:
        p = dict(plan[tier])
        if runs:
            p['runs'] = runs
        if cap:
            p['cap_s'] = cap
        stages.append((eng, p))
    return runner.run_check(prop, tier, stages)
