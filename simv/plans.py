"""Which engine(s) decide which property, and with what budget."""
from . import runner

# runs: number of seeded simulated runs; cap_s: wall-clock cap of the exploration
WORLD = {
    'quick': {'runs': 24000, 'cap_s': 75, 'batch': 250},
    'thorough': {'runs': 1200000, 'cap_s': 1200, 'batch': 500},
}

PLANS = {}
for _p in ('C01', 'C02', 'C03', 'C04', 'C05', 'C06', 'C07', 'C08', 'C09',
           'C10', 'C11', 'C18'):
    PLANS[_p] = [('world', WORLD)]


def run(prop, tier, runs=None, cap=None):
    if prop not in PLANS:
        print('HARNESS-ERROR: no check for property %s' % prop)
        return runner.EXIT_HARNESS
    rc = 0
    stages = PLANS[prop]
    if len(stages) == 1:
        eng, plan = stages[0]
        p = dict(plan[tier])
        if runs:
            p['runs'] = runs
        if cap:
            p['cap_s'] = cap
        return runner.run_check(prop, tier, eng, p)
    from . import multistage
    return multistage.run(prop, tier, stages, runs, cap)
