"""Deterministic simulation kernel: baton-passing real threads, one PRNG.

Every simulated thread is a real OS thread that only runs while it holds the
baton.  At every scheduling point the running thread asks the chooser which
runnable thread continues; the OS never decides.  The only blocking primitive
is SimLock; virtual time advances only when nothing is runnable.

Nothing in this module reads a real clock or an unseeded PRNG.
"""
import _thread as _real_thread
import heapq
import random
import sys
import traceback
import zlib

RUNNABLE, BLOCKED, SLEEPING, WAITSTEP, DONE = range(5)
_STATE_NAMES = ['runnable', 'blocked', 'sleeping', 'waitstep', 'done']

_CURRENT = None          # the active Sim (at most one per process)
_tls = _real_thread._local()
_inactive_seq = [0]


def current_sim():
    return _CURRENT


class SimAbort(BaseException):
    """Raised inside simulated threads to unwind them when a run is torn down."""


class Divergence(Exception):
    """A replayed choice could not be honoured (harness error, not a violation)."""


class SimThread:
    __slots__ = ('tid', 'name', 'role', 'baton', 'state', 'waiting_on',
                 'wake_time', 'wake_step', 'timer_token', 'pending_exc',
                 'sentinel', 'fn', 'args', 'kwargs', 'exc', 'prio', 'steps',
                 'frame_summary', 'interruptible', 'ident')

    def __init__(self, tid, fn, args, kwargs, name=None, role=None):
        self.tid = tid
        self.name = name or 'T%d' % tid
        self.role = role or 'thread'
        self.baton = _real_thread.allocate_lock()
        self.baton.acquire()
        self.state = RUNNABLE
        self.waiting_on = None
        self.wake_time = None
        self.wake_step = None
        self.timer_token = 0
        self.pending_exc = None
        self.sentinel = None
        self.fn = fn
        self.args = args
        self.kwargs = kwargs
        self.exc = None
        self.prio = 0
        self.steps = 0
        self.frame_summary = None
        self.interruptible = False
        self.ident = None

    def __repr__(self):
        return '<SimThread %d %s %s %s>' % (
            self.tid, self.name, self.role, _STATE_NAMES[self.state])


class SimLock:
    """The one blocking primitive.  Outside a simulation it is a plain flag."""
    __slots__ = ('_locked', '_waiters', 'name', '__weakref__')

    def __init__(self):
        self._locked = False
        self._waiters = []
        self.name = None

    def acquire(self, blocking=True, timeout=-1):
        sim = _CURRENT
        if sim is None:
            if self._locked:
                if not blocking:
                    return False
                raise RuntimeError(
                    'SimLock: blocking acquire of a held lock outside a '
                    'simulation would never return')
            self._locked = True
            return True
        return sim._lock_acquire(self, blocking, timeout)

    __enter__ = acquire

    def release(self):
        if not self._locked:
            raise RuntimeError('release unlocked lock')
        sim = _CURRENT
        if sim is not None and not sim.aborting:
            # a thread may be pre-empted just before it lets go of a lock (the
            # window between its last look at shared state and the release)
            sim.point('u')
        self._locked = False
        # every release is a scheduling point (also without waiters): what a
        # thread does with a value it computed under the lock happens after
        # other threads had a chance to run
        sim = _CURRENT
        if sim is not None:
            sim._lock_released(self)
        else:
            self._waiters = []

    def __exit__(self, *a):
        self.release()

    def locked(self):
        return self._locked

    def _at_fork_reinit(self):
        self._locked = False
        self._waiters = []

    def _force_reset(self):
        self._locked = False
        self._waiters = []

    def __repr__(self):
        return '<SimLock %s %s>' % (self.name or hex(id(self)),
                                    'locked' if self._locked else 'free')


# --------------------------------------------------------------------------
# choosers


class RandomChooser:
    """Draws every decision from one random.Random.

    strategy: ('uniform',) | ('sticky', p) | ('pct', depth, horizon)
              | ('starve', role_prefix, p_sticky) | ('rr', quantum)
    """

    def __init__(self, seed, strategy=('uniform',)):
        self.rng = random.Random(seed)
        self.strategy = strategy
        self.kind = strategy[0]
        self._pct_points = None
        self._rr_left = 0
        if self.kind == 'pct':
            depth, horizon = strategy[1], strategy[2]
            self._pct_points = sorted(
                self.rng.randrange(1, max(2, horizon)) for _ in range(depth))
            self._pct_low = 0

    def thread_prio(self, st):
        # called at thread creation (pct only)
        return self.rng.random() + 1.0

    def pick_thread(self, sim, options, cur_in):
        n = len(options)
        kind = self.kind
        rng = self.rng
        if kind == 'uniform':
            return rng.randrange(n)
        if kind == 'sticky':
            if cur_in and rng.random() < self.strategy[1]:
                return 0
            return rng.randrange(n)
        if kind == 'pct':
            pts = self._pct_points
            if pts and sim.steps >= pts[0]:
                pts.pop(0)
                self._pct_low -= 1
                if cur_in:
                    options[0].prio = self._pct_low
            best = 0
            bp = options[0].prio
            for i in range(1, n):
                if options[i].prio > bp:
                    bp = options[i].prio
                    best = i
            return best
        if kind == 'starve':
            pref = self.strategy[1]
            good = [i for i in range(n) if not options[i].role.startswith(pref)]
            if not good:
                return rng.randrange(n)
            if cur_in and 0 in good and rng.random() < self.strategy[2]:
                return 0
            return good[rng.randrange(len(good))]
        if kind == 'hold':
            # one long pre-emption: threads of one role are not scheduled during
            # [start, start+length) while anybody else can run; sticky otherwise
            pref, start, length, p = self.strategy[1:5]
            if start <= sim.steps < start + length:
                good = [i for i in range(n) if not options[i].role.startswith(pref)]
                if good:
                    if cur_in and 0 in good and rng.random() < p:
                        return 0
                    return good[rng.randrange(len(good))]
            if cur_in and rng.random() < p:
                return 0
            return rng.randrange(n)
        if kind == 'rr':
            if cur_in and self._rr_left > 0:
                self._rr_left -= 1
                return 0
            self._rr_left = self.strategy[1]
            return rng.randrange(n)
        raise ValueError(kind)

    def pick(self, n, tag):
        return self.rng.randrange(n)


class ReplayChooser:
    """Feeds back a recorded choice list; zeros after it is exhausted."""

    def __init__(self, choices, lenient=False):
        self.choices = choices
        self.i = 0
        self.lenient = lenient
        self.clipped = 0

    def thread_prio(self, st):
        return 0

    def _next(self, n, what):
        if self.i < len(self.choices):
            k = self.choices[self.i]
            self.i += 1
        else:
            k = 0
        if k >= n or k < 0:
            if not self.lenient:
                raise Divergence('replay choice %d out of range %d at %s #%d'
                                 % (k, n, what, self.i))
            self.clipped += 1
            k = 0
        return k

    def pick_thread(self, sim, options, cur_in):
        return self._next(len(options), 'thread')

    def pick(self, n, tag):
        return self._next(n, tag)


# --------------------------------------------------------------------------


class Sim:
    def __init__(self, chooser, max_steps=200000, epoch=1000.0,
                 record_events=False):
        self.chooser = chooser
        self.max_steps = max_steps
        self.threads = []
        self.current = None
        self.now = epoch
        self.epoch = epoch
        self.steps = 0
        self.seq = 0              # global event sequence (stamps for oracles)
        self.switches = 0
        self.trace = []           # every recorded choice (ints)
        self.digest = 0
        self.timers = []
        self._timer_seq = 0
        self.aborting = False
        self.failure = None       # (kind, message, details)
        self.obj_seq = 0
        self._done_lock = _real_thread.allocate_lock()
        self._done_lock.acquire()
        self.multi_points = 0     # points with >= 2 options
        self.max_runnable = 0
        self.step_hooks = []      # callables(sim) run at each point
        self.sleep_overshoot = None   # callable(d) -> extra
        self.events = [] if record_events else None
        self.thread_errors = []
        self.sleep_count = 0
        self.time_advances = 0
        self.interrupt_at_step = None   # deliver KeyboardInterrupt to tid 0
        self.interrupts_delivered = 0
        self.live_hook = None
        self.atomic_tid = None    # thread whose scheduling points are suspended
        self.atomic_breaks = 0
        self.finished = False
        self.park_requests = {}
        self.stall_requests = {}
        self.stall_plan = []      # [role prefix, tag prefix | '.' (any stub point) | None (any point), nth match, duration]
        self.stalls = 0
        self.in_pred = False
        self.wake_preds = {}
        self._just_woken = None
        self.parks = 0

    # ---- sequence numbers -------------------------------------------------
    def stamp(self):
        self.seq += 1
        return self.seq

    def next_obj_seq(self):
        self.obj_seq += 1
        return self.obj_seq

    # ---- thread management ------------------------------------------------
    def spawn(self, fn, args=(), kwargs=None, name=None, role=None):
        st = SimThread(len(self.threads), fn, args, kwargs or {}, name, role)
        st.prio = self.chooser.thread_prio(st)
        self.threads.append(st)
        _real_thread.start_new_thread(self._bootstrap, (st,))
        return st

    def _bootstrap(self, st):
        _tls.st = st
        st.ident = _real_thread.get_ident()
        st.baton.acquire()
        try:
            if not self.aborting:
                st.fn(*st.args, **st.kwargs)
        except SimAbort:
            pass
        except BaseException as e:   # noqa
            # (while an aborted run is being unwound, SimAbort surfaces inside
            # arbitrary code - e.g. in threading's own bootstrap of a thread that
            # was just starting - and whatever that code raises in turn is an
            # artefact of the unwinding, not an event of the explored execution)
            if not self.aborting:
                st.exc = e
                self.thread_errors.append(
                    (st.tid, st.name, repr(e),
                     ''.join(traceback.format_exception(type(e), e, e.__traceback__))))
        finally:
            try:
                self._thread_exit(st)
            except BaseException:   # noqa
                # never leave the supervisor waiting
                self.failure = self.failure or (
                    'harness', 'exception in _thread_exit',
                    traceback.format_exc())
                self.aborting = True
                self._release_supervisor()

    def current_thread(self):
        return self.current

    def _release_supervisor(self):
        try:
            self._done_lock.release()
        except RuntimeError:
            pass

    def _thread_exit(self, st):
        st.state = DONE
        if st.sentinel is not None and st.sentinel._locked:
            s = st.sentinel
            s._locked = False
            for w in s._waiters:
                if w.state == BLOCKED:
                    w.state = RUNNABLE
            s._waiters = []
        if self.aborting:
            self._abort_next()
            return
        while True:
            runnable = self._runnable()
            if runnable:
                try:
                    nxt = self._choose(runnable, None)
                except Divergence as e:
                    self._set_failure('divergence', str(e), None)
                    self.aborting = True
                    self._abort_next()
                    return
                self.current = nxt
                self.switches += 1
                nxt.baton.release()
                return
            alive = [t for t in self.threads if t.state != DONE]
            if not alive:
                self.current = None
                self._release_supervisor()
                return
            if not self._advance():
                self._record_deadlock()
                self.aborting = True
                self._abort_next()
                return

    def _abort_next(self):
        for t in self.threads:
            if t.state != DONE:
                t.state = RUNNABLE
                self.current = t
                t.baton.release()
                return
        self.current = None
        self._release_supervisor()

    # ---- scheduling ---------------------------------------------------------
    def _runnable(self):
        steps = self.steps
        out = []
        for t in self.threads:
            s = t.state
            if s == RUNNABLE:
                out.append(t)
            elif s == WAITSTEP:
                if t.wake_step <= steps:
                    t.state = RUNNABLE
                    out.append(t)
                else:
                    pred = self.wake_preds.get(t.tid)
                    if pred is not None and self._eval(pred):
                        del self.wake_preds[t.tid]
                        t.state = RUNNABLE
                        out.append(t)
                        # the state it was waiting for has just been reached
                        self._just_woken = t
        return out

    def park_at_next_point(self, pred, max_steps, skip=0):
        """The calling thread will be held at its *next* scheduling point (or,
        with skip=k, at the k-th after that) until pred() becomes true,
        max_steps more steps have passed, or nothing else can run - a
        state-triggered long pre-emption (for check-then-act windows inside
        library calls)."""
        self.park_requests[self.current.tid] = [pred, max_steps, skip]

    def stall_at_next_point(self, duration):
        """Fault: the calling thread is stalled (descheduled by the OS, a GC or
        VM pause) for `duration` simulated seconds at its next scheduling
        point, while the clock and every other thread go on."""
        self.stall_requests[self.current.tid] = duration

    def _eval(self, pred):
        """Predicates read library state (properties of /repo code): with
        statement-level pre-emption on, those reads must not be scheduling
        points of the kernel itself."""
        self.in_pred = True
        try:
            return pred()
        finally:
            self.in_pred = False

    def _park_due(self, tid):
        r = self.park_requests[tid]
        if r[2] > 0:
            r[2] -= 1
            return False
        return True

    def _choose(self, runnable, cur):
        n = len(runnable)
        if n > self.max_runnable:
            self.max_runnable = n
        if n == 1:
            return runnable[0]
        self.multi_points += 1
        if cur is not None and cur.state == RUNNABLE:
            options = [cur] + [t for t in runnable if t is not cur]
            cur_in = True
        else:
            options = runnable
            cur_in = False
        jw = self._just_woken
        if jw is not None:
            # a state-triggered action: a coin decides whether the thread that
            # waited for this very state acts on it at once (before anybody
            # moves on) or competes like everybody else
            self._just_woken = None
            if jw in runnable and jw is not cur:
                k = self.chooser.pick(2, 'wake')
                self.trace.append(k)
                if k:
                    return jw
        k = self.chooser.pick_thread(self, options, cur_in)
        self.trace.append(k)
        return options[k]

    def choose(self, n, tag='c'):
        """A PRNG decision made by a stub (short read size, etc.)."""
        if n <= 1:
            return 0
        if self.aborting:
            return 0
        k = self.chooser.pick(n, tag)
        self.trace.append(k)
        return k

    def _switch_to(self, nxt):
        cur = self.current
        self.current = nxt
        self.switches += 1
        nxt.baton.release()
        cur.baton.acquire()
        if self.aborting:
            raise SimAbort()

    def spoint(self, tag='p'):
        """Scheduling point at the entry of a stub (fake S3, file system, user
        stream, subscriber).  While an aborted run is being unwound the stub
        refuses to act: nothing the library still does may leave a trace."""
        if self.aborting and not self.finished:
            raise SimAbort()
        self.point(tag)

    def point(self, tag='p'):
        """A scheduling point: any runnable thread may continue from here."""
        if self.aborting or self.in_pred:
            return
        cur = self.current
        if cur is None or _CURRENT is not self:
            # an object of a finished run was kept alive by the code under test
            # and is used again in a later run: it must not touch this kernel
            return
        if self.atomic_tid is not None and self.atomic_tid == cur.tid:
            return
        self.steps += 1
        cur.steps += 1
        self.digest = zlib.crc32(b'%d:%s;' % (cur.tid, tag.encode()), self.digest)
        if self.events is not None:
            self.events.append((self.steps, cur.tid, tag))
        if self.steps > self.max_steps:
            self._set_failure('step-budget',
                              'run exceeded %d steps' % self.max_steps,
                              self._thread_dump())
            self.aborting = True
            raise SimAbort()
        if self.interrupt_at_step is not None and self.steps >= self.interrupt_at_step:
            self._try_interrupt()
        for h in self.step_hooks:
            h(self)
        if self.stall_plan:
            for sp in self.stall_plan:
                if cur.role.startswith(sp[0]) and (
                        sp[1] is None or ('.' in tag if sp[1] == '.' else tag.startswith(sp[1]))):
                    if sp[2] > 0:
                        sp[2] -= 1
                        continue
                    self.stall_plan.remove(sp)
                    self.stall_requests[cur.tid] = sp[3]
                    break
        if self.stall_requests and cur.tid in self.stall_requests:
            d = self.stall_requests.pop(cur.tid)
            self.stalls += 1
            cur.state = SLEEPING
            self._push_timer(cur, self.now + d)
            self._reschedule()
            return
        if self.park_requests and cur.tid in self.park_requests and \
                self._park_due(cur.tid):
            pred, n, _ = self.park_requests.pop(cur.tid)
            if not self._eval(pred):
                self.parks += 1
                cur.state = WAITSTEP
                cur.wake_step = self.steps + n
                self.wake_preds[cur.tid] = pred
                self._reschedule()
                self.wake_preds.pop(cur.tid, None)
                return
        runnable = self._runnable()
        if len(runnable) <= 1 and (not runnable or runnable[0] is cur):
            return
        try:
            nxt = self._choose(runnable, cur)
        except Divergence as e:
            self._set_failure('divergence', str(e), None)
            self.aborting = True
            raise SimAbort()
        if nxt is not cur:
            self._switch_to(nxt)

    def _unsafe_to_interrupt(self, st):
        """CPython's Condition.wait re-acquires its lock in a finally block; a
        KeyboardInterrupt raised by *that* acquire leaves the enclosing
        `with cond:` releasing a lock it does not hold (a CPython hazard, not
        the library's).  Ctrl-C is therefore only delivered at the primary
        waits (Event/Condition waiter, join, mutex entry)."""
        fr = sys._current_frames().get(st.ident)
        while fr is not None:
            if fr.f_code.co_name == '_acquire_restore':
                return True
            fr = fr.f_back
        return False

    def _try_interrupt(self):
        t0 = self.threads[0]
        if t0.state == BLOCKED and t0.interruptible and t0.pending_exc is None:
            if self._unsafe_to_interrupt(t0):
                return
            t0.pending_exc = KeyboardInterrupt()
            t0.state = RUNNABLE
            self.interrupt_at_step = None
            self.interrupts_delivered += 1

    def _reschedule(self):
        """Current thread cannot continue; run others until it can."""
        cur = self.current
        while True:
            runnable = self._runnable()
            if runnable:
                try:
                    nxt = self._choose(runnable, cur)
                except Divergence as e:
                    self._set_failure('divergence', str(e), None)
                    self.aborting = True
                    raise SimAbort()
                if nxt is not cur:
                    self._switch_to(nxt)
                return
            if not self._advance():
                self._record_deadlock()
                self.aborting = True
                raise SimAbort()

    def _advance(self):
        """Nothing runnable: jump virtual time to the next timer, else wake
        step-waiters.  False if neither exists."""
        timers = self.timers
        woke = False
        while timers:
            when, _, t, token = timers[0]
            if t.timer_token != token or t.state not in (BLOCKED, SLEEPING):
                heapq.heappop(timers)
                continue
            if woke and when > self.now:
                break
            heapq.heappop(timers)
            if when > self.now:
                self.now = when
                self.time_advances += 1
            t.state = RUNNABLE
            t.timer_token += 1
            woke = True
        if woke:
            return True
        if self.interrupt_at_step is not None:
            t0 = self.threads[0]
            if t0.state == BLOCKED and t0.interruptible and t0.pending_exc is None:
                self._try_interrupt()
                if t0.state == RUNNABLE:
                    return True
        ws = [t for t in self.threads if t.state == WAITSTEP]
        if ws:
            m = min(t.wake_step for t in ws)
            for t in ws:
                if t.wake_step == m:
                    t.state = RUNNABLE
            return True
        return False

    def _push_timer(self, t, when):
        t.timer_token += 1
        self._timer_seq += 1
        heapq.heappush(self.timers, (when, self._timer_seq, t, t.timer_token))

    # ---- lock operations ------------------------------------------------------
    def _lock_acquire(self, lock, blocking, timeout):
        if self.aborting:
            if not lock._locked:
                lock._locked = True
                return True
            if not blocking:
                return False
            raise SimAbort()
        self.point('L')
        if not lock._locked:
            lock._locked = True
            return True
        if not blocking or timeout == 0:
            return False
        cur = self.current
        if self.atomic_tid is not None and self.atomic_tid == cur.tid:
            # the atomic region ends where its thread first has to wait
            self.atomic_tid = None
            self.atomic_breaks += 1
        deadline = None
        if timeout is not None and timeout > 0:
            deadline = self.now + timeout
        while True:
            cur.state = BLOCKED
            cur.waiting_on = lock
            lock._waiters.append(cur)
            cur.interruptible = True
            if deadline is not None:
                self._push_timer(cur, deadline)
            try:
                self._reschedule()
            finally:
                cur.interruptible = False
                if cur in lock._waiters:
                    lock._waiters.remove(cur)
                cur.waiting_on = None
                cur.timer_token += 1
            if cur.pending_exc is not None:
                e = cur.pending_exc
                cur.pending_exc = None
                raise e
            if not lock._locked:
                lock._locked = True
                return True
            if deadline is not None and self.now >= deadline:
                return False

    def _lock_released(self, lock):
        for w in lock._waiters:
            if w.state == BLOCKED:
                w.state = RUNNABLE
        lock._waiters = []
        if not self.aborting:
            self.point('U')

    # ---- time -----------------------------------------------------------------
    def time(self):
        return self.now

    def sleep(self, d):
        if self.aborting:
            raise SimAbort()
        self.sleep_count += 1
        if d < 0:
            raise ValueError('sleep length must be non-negative')
        if self.sleep_overshoot is not None:
            d = d + self.sleep_overshoot(d)
        cur = self.current
        if self.atomic_tid is not None and self.atomic_tid == cur.tid:
            self.atomic_tid = None
            self.atomic_breaks += 1
        self.steps += 1
        cur.steps += 1
        self.digest = zlib.crc32(b'%d:S;' % cur.tid, self.digest)
        cur.state = SLEEPING
        self._push_timer(cur, self.now + d)
        self._reschedule()

    def begin_atomic(self):
        """Suspend the caller's scheduling points until end_atomic() or until
        it has to block.  Lets a driver observe state and act on it at one
        exact instant."""
        self.atomic_tid = self.current.tid

    def end_atomic(self):
        """True if the region ran to here without the thread ever waiting."""
        intact = self.atomic_tid is not None and self.atomic_tid == self.current.tid
        self.atomic_tid = None
        return intact

    def wait_until_step(self, step):
        """Park the caller until the global step counter reaches `step` or
        nothing else can run."""
        if self.aborting:
            raise SimAbort()
        if self.steps >= step:
            return
        cur = self.current
        cur.state = WAITSTEP
        cur.wake_step = step
        self._reschedule()

    # ---- failure bookkeeping ----------------------------------------------------
    def _set_failure(self, kind, msg, details):
        if self.failure is None:
            self.failure = (kind, msg, details)

    def fail(self, kind, msg, details=None):
        """Called by oracles evaluated inside the run."""
        self._set_failure(kind, msg, details)

    def _thread_dump(self):
        frames = sys._current_frames()
        out = []
        for t in self.threads:
            if t.state == DONE:
                continue
            w = t.waiting_on
            out.append({'tid': t.tid, 'name': t.name, 'role': t.role,
                        'state': _STATE_NAMES[t.state],
                        'waiting_on': repr(w) if w is not None else None})
        return out

    def _record_deadlock(self):
        info = self._thread_dump()
        # stacks of the real threads, filtered to non-harness frames
        stacks = {}
        byid = {}
        for t in self.threads:
            byid[id(t)] = t
        frames = sys._current_frames()
        # map real thread -> SimThread through the tls of each is not possible;
        # walk frames and look for our _bootstrap frame's local 'st'
        for ident, fr in frames.items():
            f = fr
            st = None
            chain = []
            while f is not None:
                chain.append(f)
                if f.f_code is Sim._bootstrap.__code__:
                    st = f.f_locals.get('st')
                f = f.f_back
            if st is None or st.state == DONE:
                continue
            lines = []
            for f in reversed(chain):
                fn = f.f_code.co_filename
                if '/simv/kernel.py' in fn:
                    continue
                lines.append('%s:%d %s' % (fn.split('/')[-1], f.f_lineno,
                                           f.f_code.co_name))
            stacks[st.tid] = lines[-14:]
        for d in info:
            d['stack'] = stacks.get(d['tid'])
        self._set_failure('deadlock',
                          'no runnable thread: %d blocked' % len(info), info)

    # ---- running ----------------------------------------------------------------
    def run(self, main_fn, spawn=None):
        """Run main_fn as simulated thread 0 and wait (really) for the end."""
        global _CURRENT
        if _CURRENT is not None:
            raise RuntimeError('nested simulation')
        _CURRENT = self
        try:
            if spawn is None:
                st = self.spawn(main_fn, name='driver', role='driver')
            else:
                st = spawn(main_fn)
            self.current = self.threads[0]
            self.threads[0].baton.release()
            self._done_lock.acquire()
        finally:
            _CURRENT = None
            self.finished = True
        return self.failure

    @property
    def unwinding(self):
        """True while the threads of an aborted run (deadlock, step budget,
        divergence) are being unwound: library code still executes then, but
        nothing it does is part of the explored execution."""
        return self.aborting and not self.finished
