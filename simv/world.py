"""World runs: the real TransferManager driven end-to-end against SimS3/SimFS
under the deterministic kernel.  A run is a pure function of (scenario,
choice list); everything it observed is kept in the World for the oracles."""
import gc
import re
import sys

from . import kernel, seams, simstd
from .faults import FaultPlan
from .fs import SimFS, make_osutils
from .s3 import SimS3
from .streams import (
    DuckSeekableDest,
    DuckSeekableSource,
    WrappedFileSource,
    NonSeekableDest,
    NonSeekableSource,
    SeekableDest,
    SeekableSource,
    make_subscriber_cls,
)

BUCKET = 'bkt'
_ROLE_ORDER = ('request', 'submission', 'io')
_RecordingSubscriber = None
_patched_defaults = {}
_cur = [None]          # the World of the running simulation


def _install_bw_sleep_probe():
    """Every wait a bandwidth-limited stream asks for, with the thread that
    asked (harness-side wrapper around TimeUtils.sleep, installed once)."""
    import s3transfer.bandwidth as bw
    if getattr(bw.TimeUtils.sleep, '_sim_probe', False):
        return
    orig = bw.TimeUtils.sleep

    def sleep(self, value):
        w = _cur[0]
        if w is not None and not w.sim.unwinding:
            cur = w.sim.current
            w.bw_sleeps.append((w.sim.stamp(), cur.role if cur is not None else None, value))
        return orig(self, value)
    sleep._sim_probe = True
    bw.TimeUtils.sleep = sleep


def pattern(tidx, n, salt=0, period=None):
    """Position-dependent bytes: misplaced or repeated ranges never look right.
    With `period` the data repeats (zero-filled / periodic files: equal parts)."""
    if period:
        unit = pattern(tidx, period, salt)
        return (unit * (n // period + 1))[:n]
    if n > 4096:
        import random as _r
        return _r.Random(tidx * 1000003 + salt * 7919 + n).randbytes(n)
    return bytes(((i * 31 + (i // 251) * 17 + tidx * 101 + salt * 7 + 5) & 0xff)
                 for i in range(n))


def expected_parts(size, chunk):
    return (size + chunk - 1) // chunk if size else 0


def TransferConfig_like(cfg):
    import copy
    return copy.copy(cfg)


def _payload_size(data):
    if data is None:
        return 0
    if isinstance(data, (bytes, bytearray, memoryview)):
        return len(data)
    if isinstance(data, (list, tuple)):
        return sum(_payload_size(x) for x in data)
    return 0


class World:
    def __init__(self, scenario, chooser, max_steps=None):
        seams.install()
        global _RecordingSubscriber
        if _RecordingSubscriber is None:
            # created (and its lru_cache'd method validation run) outside of any
            # simulation, so the first run of a process is like every other
            _RecordingSubscriber = make_subscriber_cls()
            _RecordingSubscriber(None, 0, 0, {})
            _RecordingSubscriber.Adapter(None, 0, 0, {})
        self.scenario = scenario
        self.knobs = scenario.get('knobs', {})
        self.sim = kernel.Sim(chooser, max_steps=max_steps or scenario.get('max_steps', 60000),
                              epoch=self.knobs.get('epoch', 1000.0))
        # fault: a thread of some stage is descheduled for a while at one point
        self.sim.stall_plan = [list(x) for x in self.knobs.get('stalls') or []]
        self.faults = FaultPlan(scenario.get('faults'), self)
        self.s3 = SimS3(self, self.knobs)
        self.fs = SimFS(self)
        self.transfers = []
        self.violations = []      # (property, class, message)
        self.probes = {}
        self.driver_log = []      # (stamp, action, info)
        self.executors = []
        self.manager = None
        self.shutdown_return = None
        self.cancel_events = []   # dicts
        self.io_submits = {}      # id(fileobj) -> [(offset, len)]
        self.live_chunk_readers = 0
        self.thread_transfer = {}
        self.max_live_chunk_readers = 0
        self.dirty = False        # any fault fired or cancel issued so far
        self.abstract_states = set()
        self.exec_roles = iter(_ROLE_ORDER)
        self.config = None
        self.driver_exc = None
        self.key_to_t = {}
        self.sem_audit = None
        self.lat_mode = self.knobs.get('latency', 'none')
        self.bw_events = []
        self.bw_sleeps = []
        self.multi = bool((scenario.get('knobs') or {}).get('sibling') == 'traffic')
        self.serial = bool((scenario.get('knobs') or {}).get('serial'))
        self.twins = any(t.get('twin_of') is not None for t in scenario.get('transfers') or [])
        self.body_release = {}

    # ---- hooks called by stubs ---------------------------------------------
    def probe(self, name, n=1):
        self.probes[name] = self.probes.get(name, 0) + n

    def violation(self, prop, cls, msg, sig=None):
        if self.sim.unwinding:
            return        # library code run while an aborted run is unwound
        if self.multi and prop in ('C10', 'C11', 'C12', 'C18'):
            return        # per-manager limits: not judged when two managers transfer
        if self.twins and prop != 'C02':
            # two transfers write one destination: requests, temporary files and
            # callbacks cannot be attributed to one of them; only "a download that
            # succeeded left the object's bytes" is judged
            return
        if self.serial and prop not in ('C01', 'C02', 'C03', 'C05', 'C06', 'C09', 'C16', 'C17'):
            # serial mode (no threads) with Ctrl-C inside a request: only the
            # effect properties are judged; the statements about callbacks,
            # cancellation entry points and stages are about the threaded manager
            return
        self.violations.append((prop, cls, msg, sig or {}))

    def fs_latency(self, op, path, first=False):
        mode = self.knobs.get('fs_latency', 'none')
        if mode == 'none':
            return 0
        if mode == 'random':
            return (0, 0, 0.01, 0.25)[self.sim.choose(4, 'fslat')]
        if mode == 'slow_open':
            return 1.0 if op == 'open' else 0
        if mode == 'slow_write':
            return 0.5 if op == 'write' else 0
        if mode == 'slow_first_write':
            return 1.0 if op == 'write' and first else 0
        return 0

    def latency(self, op, m):
        mode = self.lat_mode
        if mode == 'none':
            return 0
        if mode == 'random':
            return (0, 0, 0.01, 0.25)[self.sim.choose(4, 'lat')]
        if mode == 'slow_first':
            if m.get('part') == 1 or (m.get('range') or '').startswith('bytes=0-'):
                return 1.0
            return 0
        if mode == 'slow_last':
            if op in ('upload_part', 'get_object', 'upload_part_copy'):
                p = m.get('part')
                if p is not None:
                    return 0.1 * p
            return 0
        return 0

    def t_of_key(self, key):
        return self.key_to_t.get(key)

    def on_request_begin(self, rec, n):
        cfg = self.config
        if cfg is not None and n > cfg['max_request_concurrency']:
            self.violation('C10', 'request-concurrency',
                           '%d data requests in flight > max_request_concurrency=%d at %s %s'
                           % (n, cfg['max_request_concurrency'], rec['op'], rec['key']))
        t = self.t_of_key(rec['key'])
        if t is not None:
            rec['t'] = t['idx']
            if rec['op'] == 'get_object' and t['spec'].get('dst') in ('nonseekable', 'fifo'):
                self._window_check(t, rec)
        self._sample_state()

    def on_head_begin(self, rec, n):
        cfg = self.config
        if cfg is not None and n > cfg['max_submission_concurrency']:
            self.violation('C10', 'head-concurrency',
                           '%d head_object in flight > max_submission_concurrency=%d'
                           % (n, cfg['max_submission_concurrency']))
        t = self.t_of_key(rec['key'])
        if t is not None:
            rec['t'] = t['idx']

    def _window_check(self, t, rec):
        """C11(b): a ranged GET for part j is only issued while j is within
        max_in_memory_download_chunks of the lowest part whose stream has not
        been fully consumed (an under-approximation of 'not finished')."""
        rng = rec.get('Range')
        if rng is None or t.get('dirty') or self.dirty:
            return
        chunk = self.config['multipart_chunksize']
        m = re.match(r'bytes=(\d+)-', rng)
        j = int(m.group(1)) // chunk
        done = t.setdefault('eof_parts', set())
        # refresh from the log
        for r in self.s3.log:
            if r.get('t') == t['idx'] and r['op'] == 'get_object' and \
                    r.get('stream_outcome') == 'eof' and r.get('Range'):
                mm = re.match(r'bytes=(\d+)-', r['Range'])
                done.add(int(mm.group(1)) // chunk)
        low = 0
        while low in done:
            low += 1
        w = self.config['max_in_memory_download_chunks']
        ahead = j - low
        if ahead > t.get('max_ahead', 0):
            t['max_ahead'] = ahead
        if ahead >= w:
            self.violation('C11', 'download-window',
                           'part %d requested while lowest unconsumed part is %d; '
                           'window max_in_memory_download_chunks=%d' % (j, low, w))

    def on_object_written(self, key, rec):
        pass

    def on_bytes_moved(self, kind, ident, n):
        if self.config is not None and self.config.get('max_bandwidth'):
            self.bw_events.append((self.sim.now, self.sim.stamp(), n, (kind,) + tuple(ident)))

    def on_source_read(self, tidx, pos, n):
        t = self.transfers[tidx]
        t['src_bytes_read'] = t.get('src_bytes_read', 0) + n
        cur = self.sim.current
        if cur is not None and cur.role == 'submission':
            # bytes a submission thread took off the user's stream: they sit in
            # memory until they are handed over as a part body
            t['sub_read'] = t.get('sub_read', 0) + n
            self.thread_transfer[cur.tid] = tidx
            self._check_upload_buffers()

    def _check_upload_buffers(self):
        """C11(a): part bodies alive, plus one for every stream upload whose
        submission thread holds bytes beyond the parts it has handed over (the
        initial pre-read of up to multipart_threshold bytes, out of which the
        first parts are cut, is not a buffer of its own)."""
        cfg = self.config
        if cfg is None:
            return
        thr = cfg['multipart_threshold']
        ahead = [x['idx'] for x in self.transfers
                 if x.get('sub_read', 0) > max(thr, x.get('wrapped_total', 0))]
        n = self.live_chunk_readers + len(ahead)
        bound = cfg['max_in_memory_upload_chunks'] + cfg['max_submission_concurrency']
        if n > bound:
            self.violation(
                'C11', 'upload-buffers',
                '%d buffers of stream uploads exist in memory (%d part bodies + %d part(s) '
                'read ahead off the stream by t%s) > max_in_memory_upload_chunks + '
                'max_submission_concurrency = %d'
                % (n, self.live_chunk_readers, len(ahead), ahead, bound))

    def on_dest_write(self, tidx, off, n):
        cfg = self.config
        if cfg is not None and n > cfg['io_chunksize']:
            self.violation('C11', 'io-chunk',
                           'destination write of %d bytes > io_chunksize=%d'
                           % (n, cfg['io_chunksize']))

    def open_part_requests_of(self, tidx):
        n = 0
        for r in self.s3.log:
            if r.get('t') == tidx and r['end'] is None and (
                    r['op'] in ('upload_part', 'upload_part_copy') or
                    (r['op'] == 'get_object' and r.get('Range'))):
                n += 1
        return n

    def open_requests_of(self, tidx):
        n = 0
        for r in self.s3.log:
            if r.get('t') == tidx and r['end'] is None:
                n += 1
        return n

    def _sample_state(self):
        sts = tuple(t['future']._coordinator.status[:2] if t.get('future') is not None
                    else '--' for t in self.transfers)
        occ = tuple(e.occ for e in self.executors)
        self.abstract_states.add((sts, occ, len(self.s3.inflight)))

    # ---- executor factory ----------------------------------------------------
    def make_executor_cls(self):
        world = self
        base = simstd.sim_cf.ThreadPoolExecutor

        class CountingExecutor(base):
            def __init__(self, max_workers=None):
                try:
                    role = next(world.exec_roles)
                except StopIteration:
                    role = 'extra'
                super().__init__(max_workers=max_workers,
                                 thread_name_prefix=role)
                self.role = role
                self._role_known = False
                self._work_queue = _RecordingWorkQueue(world, self)
                self.occ = 0
                self.pending_bytes = 0
                self.max_occ = 0
                self.submitted = 0
                world.executors.append(self)
                # building a pool is not atomic for the thread that does it; when
                # a WORKER thread of the manager does it (pools created on
                # demand) it may also be slow - a cooperative fault point
                sim = world.sim
                sim.spoint('executor.new')
                cur = sim.current
                if cur is not None and cur.role != 'driver' and not sim.unwinding \
                        and sim.choose(2, 'slow-pool'):
                    world.probe('slow-pool-construction')
                    sim.sleep(1.0)

            def _resolve_role(self):
                """Which stage this pool serves is decided by WHO submits to it
                (the manager's BoundedExecutor calling us), not by the order in
                which pools happen to be constructed."""
                self._role_known = True
                f = sys._getframe(2)
                for _ in range(6):
                    if f is None:
                        break
                    role = world._stage_of(f.f_locals.get('self'))
                    if role is not None:
                        if role != self.role and not self._threads:
                            self.role = role
                            self._thread_name_prefix = role
                        return
                    f = f.f_back

            def submit(self, fn, *args, **kwargs):
                if not self._role_known:
                    self._resolve_role()
                self.occ += 1
                self.submitted += 1
                if self.occ > self.max_occ:
                    self.max_occ = self.occ
                nbytes = world.on_executor_submit(self, fn) or 0
                ex = self
                tagname = world._tag_enter(fn) if self.role == 'request' and \
                    hasattr(world, 'task_tag') else False

                body = (getattr(fn, '_main_kwargs', None) or {}).get('fileobj')
                owned = world.body_release.get(id(body)) if body is not None else None

                def run(*a, **k):
                    try:
                        return fn(*a, **k)
                    finally:
                        ex.occ -= 1
                        ex.pending_bytes -= nbytes
                        if tagname is not False:
                            world.tag_occ[tagname] -= 1
                        if owned is not None and owned[0] is body and \
                                not world._still_referenced(fn, body):
                            owned[1]()
                run._task = fn
                return super().submit(run, *args, **kwargs)

        return CountingExecutor

    def _stage_of(self, owner):
        if owner is None:
            return None
        mgr = getattr(self, 'manager', None)
        for attr, role in (('_request_executor', 'request'),
                           ('_submission_executor', 'submission'),
                           ('_io_executor', 'io')):
            if mgr is not None and getattr(mgr, attr, None) is owner:
                return role
        return None

    @staticmethod
    def _still_referenced(task, body):
        """An unclosed part body whose task has finished is garbage - unless the
        library itself still holds on to it (e.g. through a callback registered
        with the transfer's coordinator)."""
        coord = getattr(task, '_transfer_coordinator', None)
        inner = getattr(body, '_fileobj', None)
        for attr in ('_failure_cleanups', '_done_callbacks'):
            for fc in list(getattr(coord, attr, None) or ()):
                fn = getattr(fc, '_func', fc)
                owner = getattr(fn, '__self__', None)
                if owner is not None and (owner is body or owner is inner):
                    return True
                for a in getattr(fc, '_args', ()) or ():
                    if a is body or a is inner:
                        return True
        return False

    def _observe_tags(self):
        """Remember which semaphore (stage or tag) each request task was
        submitted under, so occupancy can be bounded per semaphore."""
        world = self
        be = self.manager._request_executor
        real = be.submit
        self.task_tag = {}
        self.tag_occ = {}

        def submit(task, tag=None, *a, **k):
            world.task_tag[id(task)] = getattr(tag, 'name', None)
            return real(task, tag, *a, **k)
        be.submit = submit
        # C10: "a submitter blocks, rather than fails or overruns, while a stage
        # is full" - the manager's stages must never refuse a task
        from s3transfer.utils import NoResourcesAvailable
        for stage in ('_submission_executor', '_request_executor', '_io_executor'):
            self._guard_stage(getattr(self.manager, stage), stage.strip('_'),
                              NoResourcesAvailable)

    def _guard_stage(self, be, stage, exc_cls):
        world = self
        inner = be.submit

        def submit(task, tag=None, *a, **k):
            block = k.get('block', a[0] if a else True)
            try:
                return inner(task, tag, *a, **k)
            except exc_cls as e:
                world.violation('C10', 'submit-failed-instead-of-blocking',
                                'the %s refused %s with %r instead of making the '
                                'submitter wait (block=%r)'
                                % (stage, type(task).__name__, e, block),
                                {'stage': stage})
                raise
        be.submit = submit

    def _tag_enter(self, task):
        name = self.task_tag.get(id(task), None) if hasattr(self, 'task_tag') else None
        n = self.tag_occ.get(name, 0) + 1
        self.tag_occ[name] = n
        cfg = self.config
        lim = {None: cfg['max_request_queue_size'],
               'in_memory_upload': cfg['max_in_memory_upload_chunks'],
               'in_memory_download': cfg['max_in_memory_download_chunks']}.get(name)
        if lim is not None and n > lim:
            self.violation('C10', 'tag-occupancy',
                           '%d queued-or-running request tasks under the %s limit of %d'
                           % (n, name or 'max_request_queue_size', lim),
                           {'variant': name or 'stage'})
        return name

    def on_executor_submit(self, ex, task):
        cfg = self.config
        if cfg is None:
            return
        if ex.role == 'io':
            if ex.occ > cfg['max_io_queue_size']:
                self.violation('C10', 'io-queue',
                               'io executor holds %d tasks > max_io_queue_size=%d'
                               % (ex.occ, cfg['max_io_queue_size']))
                self.violation('C11', 'io-queue',
                               'io executor holds %d tasks > max_io_queue_size=%d'
                               % (ex.occ, cfg['max_io_queue_size']))
            # C11: pending destination writes <= max_io_queue_size chunks of
            # io_chunksize, in bytes (whatever shape the task's data has)
            nbytes = _payload_size((getattr(task, '_main_kwargs', None) or {}).get('data'))
            if nbytes:
                if nbytes > cfg['io_chunksize']:
                    self.violation('C11', 'io-chunk',
                                   'one pending destination write (%s) carries %d bytes > '
                                   'io_chunksize=%d' % (type(task).__name__, nbytes,
                                                        cfg['io_chunksize']))
                ex.pending_bytes += nbytes
                lim = cfg['max_io_queue_size'] * cfg['io_chunksize']
                if ex.pending_bytes > lim:
                    self.violation('C11', 'io-bytes',
                                   '%d bytes of destination writes are pending > '
                                   'max_io_queue_size x io_chunksize = %d'
                                   % (ex.pending_bytes, lim))
            self._sample_state()
            return nbytes
        elif ex.role == 'request':
            bound = cfg['max_request_queue_size'] + self.tag_allowance
            if ex.occ > bound:
                self.violation('C10', 'request-queue',
                               'request executor holds %d tasks > %d'
                               % (ex.occ, bound))
        elif ex.role == 'submission':
            if ex.occ > cfg['max_submission_queue_size']:
                self.violation('C10', 'submission-queue',
                               'submission executor holds %d tasks > %d'
                               % (ex.occ, cfg['max_submission_queue_size']))
        self._sample_state()

    # ---- setup -------------------------------------------------------------------
    def _build_config(self):
        from s3transfer.manager import TransferConfig
        c = dict(self.scenario['config'])
        self.config = c
        self.tag_allowance = 0
        for t in self.scenario['transfers']:
            if t['type'] == 'upload' and t['src'] in ('seekable', 'nonseekable'):
                self.tag_allowance = max(self.tag_allowance, 0)
        up = any(t['type'] == 'upload' and t['src'] in ('seekable', 'nonseekable')
                 for t in self._all_transfer_specs())
        down = any(t['type'] == 'download' and t.get('dst') in ('nonseekable', 'fifo')
                   for t in self._all_transfer_specs())
        self.tag_allowance = (c['max_in_memory_upload_chunks'] if up else 0) + \
            (c['max_in_memory_download_chunks'] if down else 0)
        return TransferConfig(**c)

    def _part_period(self):
        c = self.config or {}
        return max(1, int(c.get('multipart_chunksize') or 1))

    def _all_transfer_specs(self):
        out = list(self.scenario['transfers'])
        for a in self.scenario.get('driver', []):
            if a[0] == 'fresh':
                out.append(a[1])
        return out

    def _apply_knob_seams(self):
        import s3transfer.bandwidth as bw
        import s3transfer.copies as copies
        import s3transfer.upload as upload
        import s3transfer.utils as utils
        k = self.knobs
        if 'orig' not in _patched_defaults:
            _patched_defaults['orig'] = (
                upload.AggregatedProgressCallback.__init__.__defaults__,
                bw.BandwidthLimitedStream.__init__.__defaults__,
                utils.ChunksizeAdjuster)
        o = _patched_defaults['orig']
        upload.AggregatedProgressCallback.__init__.__defaults__ = (
            k.get('progress_threshold', o[0][0]),)
        bw.BandwidthLimitedStream.__init__.__defaults__ = (
            o[1][0], k.get('bw_threshold', o[1][1]))
        adj = k.get('adjuster')
        real = o[2]
        if adj:
            def factory(max_size=adj.get('max_size', 1 << 40),
                        min_size=adj.get('min_size', 1),
                        max_parts=adj.get('max_parts', 10000)):
                return real(max_size, min_size, max_parts)
            upload.ChunksizeAdjuster = factory
            copies.ChunksizeAdjuster = factory
        else:
            upload.ChunksizeAdjuster = real
            copies.ChunksizeAdjuster = real

    def _make_subs(self, tidx, spec):
        global _RecordingSubscriber
        if _RecordingSubscriber is None:
            _RecordingSubscriber = make_subscriber_cls()
        subs = spec.get('subs')
        if subs is None:
            subs = [{}]
        return [(_RecordingSubscriber.Adapter if s.get('adapter') else _RecordingSubscriber)(
            self, tidx, i, s) for i, s in enumerate(subs)]

    def _prepare_transfer(self, spec):
        idx = len(self.transfers)
        t = {'idx': idx, 'spec': spec, 'type': spec['type'], 'callbacks': [],
             'future': None, 'outcome': None, 'cancel': None}
        self.transfers.append(t)
        ty = spec['type']
        size = spec.get('size', 0)
        if ty == 'skip':
            t['key'] = 'skip%d' % idx
            t['subs'] = []
            return t
        if ty == 'upload':
            t['key'] = 'k%d' % idx
            off = spec.get('offset', 0) if spec['src'] == 'seekable' else 0
            full = pattern(idx, size + off)
            if spec.get('periodic'):
                # every part holds the same bytes (sparse / zero-filled file)
                full = full[:off] + pattern(idx, size, period=self._part_period())
            t['expect'] = full[off:]
            if spec['src'] == 'path':
                t['path'] = spec.get('path_override') or '/d/up%d' % idx
                self.fs.files[t['path']] = bytearray(full)
                t['fileobj'] = t['path']
            elif spec['src'] == 'seekable':
                cls = DuckSeekableSource if spec.get('duck') else SeekableSource
                if spec.get('wrapped'):
                    cls = WrappedFileSource
                # (short reads only where the body is streamed straight from
                # the user's object - a single PutObject; the part slicer of the
                # multipart path relies on read(n) returning n bytes, as file
                # objects and BytesIO do)
                short = bool(spec.get('short_seekable')) and \
                    size < self.config['multipart_threshold']
                t['fileobj'] = cls(self, idx, full, off, short)
            else:
                t['fileobj'] = NonSeekableSource(self, idx, full,
                                                 short=spec.get('short_src', False))
        elif ty == 'download':
            t['key'] = spec.get('key_override') or 'o%d' % idx
            twin = spec.get('twin_of')
            if twin is not None:
                # the SAME object downloaded to the SAME destination by a second,
                # concurrent transfer (only C02's content oracle judges such runs)
                self.twins = True
                idx_data = twin
            else:
                idx_data = idx
            data = pattern(idx_data, size)
            t['expect'] = data
            self.s3.objects[(BUCKET, t['key'])] = data
            d = spec['dst']
            if d == 'path':
                t['path'] = spec.get('path_override') or '/d/down%d' % idx
                prev = spec.get('prev')
                t['prev'] = None
                if prev is not None:
                    t['prev'] = bytes(pattern(idx_data, prev, salt=3))
                    if twin is None:
                        self.fs.files[t['path']] = bytearray(t['prev'])
                self.fs.dests[t['path']] = idx
                t['fileobj'] = t['path']
            elif d == 'fifo':
                t['path'] = '/d/fifo%d' % idx
                self.fs.special[t['path']] = []
                t['fileobj'] = t['path']
            elif d == 'seekable':
                t['fileobj'] = (DuckSeekableDest if spec.get('duck') else SeekableDest)(self, idx)
            else:
                t['fileobj'] = NonSeekableDest(self, idx)
        elif ty == 'copy':
            t['key'] = 'k%d' % idx
            t['src_key'] = spec.get('key_override') or 'src%d' % idx
            data = pattern(idx, size, period=self._part_period() if spec.get('periodic') else None)
            t['expect'] = data
            if spec.get('versioned'):
                # the caller names a NON-current version of the source: the
                # current one has the same length and other bytes
                if not hasattr(self.s3, 'versions'):
                    self.s3.versions = {}
                self.s3.versions[(BUCKET, t['src_key'], 'v1')] = data
                self.s3.objects[(BUCKET, t['src_key'])] = pattern(idx, size, salt=5)
                t['copy_source'] = {'Bucket': BUCKET, 'Key': t['src_key'], 'VersionId': 'v1'}
            else:
                self.s3.objects[(BUCKET, t['src_key'])] = data
            self.key_to_t[t['src_key']] = t
        elif ty == 'delete':
            t['key'] = 'del%d' % idx
            self.s3.objects[(BUCKET, t['key'])] = pattern(idx, 3)
        self.key_to_t[t['key']] = t
        t['subs'] = self._make_subs(idx, spec)
        return t

    def _submit(self, t):
        m = self.manager
        spec = t['spec']
        if spec.get('mgr') and self.sibling is not None:
            m = self.sibling
        ty = spec['type']
        if ty == 'skip':
            return None
        extra = dict(spec.get('extra_args') or {})
        if extra.get('ChecksumCRC32') == '@full':
            from .s3 import crc32_b64
            extra['ChecksumCRC32'] = crc32_b64(bytes(t['expect']))
        t['submit_stamp'] = self.sim.stamp()
        if self.serial:
            try:
                return self._submit_inner(t, m, spec, ty, extra)
            except KeyboardInterrupt as e:
                # the interrupt escaped the call that runs the whole transfer
                t['submit_raised'] = e
                self.probe('serial-interrupt-escaped-submit')
                return None
        return self._submit_inner(t, m, spec, ty, extra)

    def _submit_inner(self, t, m, spec, ty, extra):
        if ty == 'upload':
            f = m.upload(t['fileobj'], BUCKET, t['key'], extra_args=extra,
                         subscribers=t['subs'])
        elif ty == 'download':
            f = m.download(BUCKET, t['key'], t['fileobj'], extra_args=extra,
                           subscribers=t['subs'])
        elif ty == 'copy':
            f = m.copy(t.get('copy_source') or {'Bucket': BUCKET, 'Key': t['src_key']},
                       BUCKET, t['key'],
                       extra_args=extra, subscribers=t['subs'])
        else:
            f = m.delete(BUCKET, t['key'], extra_args=extra, subscribers=t['subs'])
        t['future'] = f
        t['submitted_stamp'] = self.sim.stamp()
        return f

    def _collect(self, t):
        """result() of one transfer, recorded once."""
        if t['outcome'] is not None or t['future'] is None:
            return
        try:
            try:
                v = t['future'].result()
            finally:
                # "once the future is done no temporary file remains": the
                # directory at the moment result() lets the caller go
                if t['type'] == 'download' and isinstance(t.get('path'), str) and \
                        t['spec'].get('dst') == 'path':
                    t['temps_at_result'] = list(self.fs.temps_of(t['path']))
                    cur = self.fs.files.get(t['path'])
                    t['dest_at_result'] = bytes(cur) if cur is not None else None
            t['outcome'] = ('ok', v, self.sim.stamp())
        except KeyboardInterrupt as e:
            if self.serial:
                # the stored outcome of a transfer that was interrupted while it
                # ran on this thread
                t['outcome'] = ('exc', e, self.sim.stamp())
                return
            # TransferFuture.result() cancelled this transfer itself
            ev = {'how': 'interrupt-result', 't': t['idx'], 'status': None,
                  'exc_before': None, 'stamp': self.sim.stamp(),
                  'calls_before': None, 'msg': '', 'exc_type': 'CancelledError',
                  'exact': False, 'first': t['cancel'] is None}
            if t['cancel'] is None:
                t['cancel'] = ev
            t['dirty'] = True
            self.dirty = True
            self.cancel_events.append(ev)
            raise
        except BaseException as e:   # noqa
            t['outcome'] = ('exc', e, self.sim.stamp())

    # ---- the driver (simulated thread 0) -----------------------------------------
    def _driver(self):
        from s3transfer.manager import TransferManager
        sim = self.sim
        sc = self.scenario
        seams.run_random.seed(sc.get('fs_seed', 0))
        self._apply_knob_seams()
        cfg = self._build_config()
        osutil = make_osutils(self.fs)
        self._count_stream_buffers(osutil)
        self.fs.invariants.append(self._dest_invariant)
        for spec in sc['transfers']:
            self._prepare_transfer(spec)
        if self.serial:
            # use_threads=False: the library's NonThreadedExecutor runs every
            # task inline on the caller's thread
            from s3transfer.futures import NonThreadedExecutor
            self.manager = TransferManager(self.s3, cfg, osutil,
                                           executor_cls=NonThreadedExecutor)
        else:
            self.manager = TransferManager(self.s3, cfg, osutil,
                                           executor_cls=self.make_executor_cls())
        self._wrap_controller()
        self._observe_tags()
        self.sibling = None
        if sc.get('knobs', {}).get('sibling'):
            # applications reuse one TransferConfig object for all their managers
            self.sibling = TransferManager(self.s3, cfg, osutil)
        script = sc.get('driver') or self.default_script()
        use_with = any(a[0] in ('with_raise', 'use_with') for a in script)
        self._in_with = use_with
        try:
            if use_with:
                n0 = [None]
                try:
                    with self.manager:
                        try:
                            self._run_script(script)
                        finally:
                            n0[0] = sim.interrupts_delivered
                except _WithExit as e:
                    self.driver_log.append((sim.stamp(), 'with_exit_done', repr(e)))
                except Exception as e:   # noqa
                    if getattr(e, '_sim_with_exit', False):
                        self.driver_log.append((sim.stamp(), 'with_exit_done', repr(e)))
                    else:
                        raise
                except KeyboardInterrupt as e:
                    self.driver_log.append((sim.stamp(), 'with_exit_kbi', repr(e)))
                if sim.interrupts_delivered == n0[0]:
                    self.shutdown_return = sim.stamp()
                else:
                    # Ctrl-C landed inside __exit__ itself: it did not return
                    # normally, so no barrier is claimed for this run
                    self.probe('interrupt-inside-exit')
            else:
                self._run_script(script)
        except kernel.SimAbort:
            raise
        except BaseException as e:   # noqa
            import traceback
            self.driver_exc = (e, traceback.format_exc())
        # everything is over: final collection (no blocking expected)
        sim.interrupt_at_step = None
        sim.atomic_tid = None
        self.after_shutdown_stamp = sim.stamp()
        for t in self.transfers:
            if t['future'] is not None and t['outcome'] is None:
                if t['future'].done():
                    self._collect(t)

    def default_script(self):
        n = len(self.scenario['transfers'])
        sib = self.scenario.get('knobs', {}).get('sibling')
        if sib == 'before':
            return [('sibling_shutdown',)] + [('submit', i) for i in range(n)] + \
                   [('result', i) for i in range(n)] + [('shutdown',)]
        if sib == 'during':
            k = self.scenario['knobs'].get('sibling_at', 0) % (n + 1)
            return [('submit', i) for i in range(k)] + [('sibling_shutdown',)] + \
                   [('submit', i) for i in range(k, n)] + \
                   [('result', i) for i in range(n)] + [('shutdown',)]
        return [('submit', i) for i in range(n)] + \
               [('result', i) for i in range(n)] + [('shutdown',)]

    def _run_script(self, script):
        sim = self.sim
        for a in script:
            op = a[0]
            self.driver_log.append((sim.stamp(), op, a[1:] if len(a) > 1 else None))
            if op == 'use_with':
                continue
            if op == 'submit':
                self._submit(self.transfers[a[1]])
            elif op == 'wait_step':
                sim.wait_until_step(a[1])
            elif op == 'cancel':
                t = self.transfers[a[1]]
                if t['future'] is None:
                    continue
                coord = t['future']._coordinator
                atomic = bool(a[2]) if len(a) > 2 else True
                if atomic:
                    sim.begin_atomic()
                ev = {'how': 'future', 't': t['idx'], 'status': coord.status,
                      'exc_before': coord._exception,
                      'stamp': sim.stamp(), 'calls_before': self._calls_of(t['idx']),
                      'msg': '', 'exc_type': 'CancelledError', 'exact': False}
                first = t['cancel'] is None
                t['cancel'] = t['cancel'] or ev
                t['dirty'] = True
                self.dirty = True
                self.cancel_events.append(ev)
                hold = a[3] if len(a) > 3 else None
                if hold and not atomic:
                    # hold the canceller at the first scheduling point inside
                    # cancel() until the transfer reached a given state
                    tidx = t['idx']
                    if hold == 'inflight':
                        pred = lambda: self.open_requests_of(tidx) > 0      # noqa: E731
                    elif hold == 'part':
                        pred = lambda: self.open_part_requests_of(tidx) > 0  # noqa: E731
                    elif hold == 'running':
                        pred = lambda: coord.status == 'running'            # noqa: E731
                    else:
                        pred = lambda: coord.status in ('success', 'failed')  # noqa: E731
                    sim.park_at_next_point(pred, 400, a[4] if len(a) > 4 else 0)
                    self.probe('cancel-held-until-' + hold)
                try:
                    t['future'].cancel()
                finally:
                    ev['exact'] = sim.end_atomic() if atomic else False
                    ev['returned'] = sim.stamp()
                    ev['first'] = first
            elif op == 'result':
                try:
                    self._collect(self.transfers[a[1]])
                except KeyboardInterrupt as e:
                    if getattr(self, '_in_with', False):
                        raise      # leaves the with-block, as in an application
                    # (a Ctrl-C that found the caller still waiting for a result
                    # although shutdown had been asked for: only on a tree where
                    # transfers do not finish; the caller carries on)
                    self.driver_log.append((sim.stamp(), 'result_kbi', repr(e)))
            elif op == 'interrupt_at':
                sim.interrupt_at_step = a[1]
            elif op == 'shutdown':
                kw = a[1] if len(a) > 1 else {}
                if kw.get('cancel'):
                    self._arm_mass_cancel('shutdown', kw.get('cancel_msg', ''),
                                          'CancelledError',
                                          a[2] if len(a) > 2 else True,
                                          a[3] if len(a) > 3 else None)
                try:
                    self.manager.shutdown(**kw)
                    self.shutdown_return = sim.stamp()
                except KeyboardInterrupt as e:
                    # interrupted shutdown: it raised, no barrier claimed
                    self.probe('interrupt-inside-shutdown')
                    sim.atomic_tid = None
                    self.driver_log.append((sim.stamp(), 'shutdown_kbi', repr(e)))
                except kernel.SimAbort:
                    raise
                except BaseException as e:   # noqa
                    import traceback
                    self.shutdown_exc = (e, traceback.format_exc())
                    self.driver_log.append((sim.stamp(), 'shutdown_raised', repr(e)))
                    sim.atomic_tid = None
                    # shutdown did not return, it raised: no barrier was
                    # established.  Let the run end with a plain shutdown.
                    try:
                        self.manager.shutdown()
                        self.shutdown_return = sim.stamp()
                    except kernel.SimAbort:
                        raise
                    except BaseException:   # noqa
                        pass
            elif op == 'with_raise':
                kind, msg = a[1], a[2]
                if kind == 'kbi':
                    exc = KeyboardInterrupt(msg)
                elif kind == 'cancelerr':
                    # e.g. an unguarded future.result() of a transfer the user
                    # cancelled: still a non-interrupt exception in the block
                    from s3transfer.exceptions import CancelledError as _CE
                    exc = _CE(msg)
                    exc._sim_with_exit = True
                else:
                    exc = _WithExit(msg)
                m = str(exc) or repr(exc)
                self._arm_mass_cancel(
                    'with', m, 'CancelledError' if kind == 'kbi' else 'FatalError',
                    a[3] if len(a) > 3 else True, a[4] if len(a) > 4 else None)
                raise exc
            elif op == 'sibling_shutdown':
                # another manager that shares the client (and nothing else) goes
                # away: this manager's transfers must not notice
                if self.sibling is not None:
                    self.sibling.shutdown()
                    self.sibling = None
                    self.probe('sibling-manager-shut-down')
            elif op == 'bad_call':
                # a call the manager rejects (a bucket the high-level operations
                # do not support): the caller handles the ValueError and goes
                # on using the manager
                m = self.manager
                arn = 'arn:aws:s3-object-lambda:us-west-2:123456789012:accesspoint/ap'
                try:
                    if a[1] == 'upload':
                        m.upload(__import__('io').BytesIO(b'xy'), arn, 'k')
                    elif a[1] == 'download':
                        m.download(arn, 'k', __import__('io').BytesIO())
                    elif a[1] == 'copy':
                        m.copy({'Bucket': BUCKET, 'Key': 'k'}, arn, 'k2')
                    else:
                        m.delete(arn, 'k')
                    self.probe('bad-call-accepted')
                except ValueError:
                    self.probe('bad-call-rejected')
            elif op == 'fresh':
                t = self._prepare_transfer(a[1])
                t['fresh'] = True
                self._submit(t)
                self._collect(t)
            elif op == 'results':
                for t in self.transfers:
                    self._collect(t)
            else:
                raise ValueError(op)

    def _calls_of(self, tidx):
        return sum(1 for r in self.s3.log if r.get('t') == tidx)

    def _arm_mass_cancel(self, how, msg, exc_type, atomic, hold=None):
        """The driver is about to cancel everything through the manager.  The
        snapshot of every transfer's status is taken when the controller's
        cancel() is entered (harness-side wrapper); with `atomic` the driver's
        scheduling points are suspended from here until it first waits, so the
        snapshot is the exact state each coordinator is cancelled in."""
        self.dirty = True
        self._pending_mass = {'how': how, 'msg': msg, 'exc_type': exc_type,
                              'atomic': atomic, 'hold': hold}
        self._wrap_controller()
        if atomic:
            self.sim.begin_atomic()

    def _wrap_controller(self):
        ctl = self.manager._coordinator_controller
        if getattr(ctl, '_sim_wrapped', False):
            return
        orig = ctl.cancel
        world = self

        def cancel(*a, **k):
            world._mass_cancel_enter(a, k)
            try:
                return orig(*a, **k)
            finally:
                world._mass_cancel_exit()
        ctl.cancel = cancel
        ctl._sim_wrapped = True

    def _mass_cancel_enter(self, a, k):
        sim = self.sim
        pend = getattr(self, '_pending_mass', None) or {
            'how': 'interrupt', 'msg': 'KeyboardInterrupt()',
            'exc_type': 'CancelledError', 'atomic': False}
        self._pending_mass = None
        self.dirty = True
        evs = []
        for t in self.transfers:
            if t['future'] is None:
                continue
            coord = t['future']._coordinator
            ev = {'how': pend['how'], 't': t['idx'], 'status': coord.status,
                  'exc_before': coord._exception,
                  'stamp': sim.stamp(), 'calls_before': self._calls_of(t['idx']),
                  'msg': pend['msg'], 'exc_type': pend['exc_type'],
                  'exact': False, 'args': repr((a, k))[:80]}
            ev['first'] = t['cancel'] is None
            if t['cancel'] is None:
                t['cancel'] = ev
            t['dirty'] = True
            self.cancel_events.append(ev)
            evs.append(ev)
        self._mass_evs = evs
        hold = pend.get('hold')
        if hold and not pend['atomic'] and self.transfers:
            # [state, victim index, scheduling points to skip]: the driver is
            # held somewhere inside the controller's cancel loop until the
            # victim transfer reached the state
            kind, victim, skip = hold
            vt = self.transfers[victim % len(self.transfers)]
            if vt['future'] is not None:
                coord = vt['future']._coordinator
                tidx = vt['idx']
                if kind == 'inflight':
                    pred = lambda: self.open_requests_of(tidx) > 0      # noqa: E731
                elif kind == 'part':
                    pred = lambda: self.open_part_requests_of(tidx) > 0  # noqa: E731
                elif kind == 'running':
                    pred = lambda: coord.status == 'running'            # noqa: E731
                else:
                    pred = lambda: coord.status in ('success', 'failed')  # noqa: E731
                sim.park_at_next_point(pred, 400, skip)
                self.probe('mass-cancel-held-until-' + kind)

    def _mass_cancel_exit(self):
        sim = self.sim
        intact = sim.atomic_tid is not None and sim.atomic_tid == sim.current.tid
        for ev in getattr(self, '_mass_evs', []):
            ev['exact'] = intact
            ev['returned'] = sim.stamp()
        self._mass_evs = []

    # ---- C11(a): part bodies of stream uploads that exist in memory ---------------
    def _count_stream_buffers(self, osutil):
        """Every in-memory part body is created by
        open_file_chunk_reader_from_fileobj() right after its bytes were read
        from the user's stream and ceases to exist some time after its
        close(); created - closed therefore under-approximates the number of
        buffers alive, and the statement bounds that number by
        max_in_memory_upload_chunks + max_submission_concurrency."""
        import io
        world = self
        orig = osutil.open_file_chunk_reader_from_fileobj

        def wrapped(fileobj, chunk_size, full_file_size, callbacks,
                    close_callbacks=None, *a, **k):
            rfc = orig(fileobj, chunk_size, full_file_size, callbacks,
                       close_callbacks, *a, **k)
            inner = fileobj
            for _ in range(6):
                nxt = getattr(inner, '_fileobj', None)
                if nxt is None:
                    break
                inner = nxt
            if not isinstance(inner, io.BytesIO):
                return rfc
            size = len(inner.getbuffer())
            cfg = world.config
            world.live_chunk_readers += 1
            cur = world.sim.current
            ti = world.thread_transfer.get(cur.tid) if cur is not None else None
            if ti is not None and cur.role == 'submission':
                tt = world.transfers[ti]
                tt['wrapped_total'] = tt.get('wrapped_total', 0) + size
            if world.live_chunk_readers > world.max_live_chunk_readers:
                world.max_live_chunk_readers = world.live_chunk_readers
            if cfg is not None:
                # (a body stops counting when it is closed or when the task that
                # owns it has finished, whichever comes first - so the count
                # stays an under-approximation also after failures and cancels)
                bound = cfg['max_in_memory_upload_chunks'] + cfg['max_submission_concurrency']
                if world.live_chunk_readers > bound:
                    world.violation(
                        'C11', 'upload-buffers',
                        '%d part bodies of stream uploads exist in memory > '
                        'max_in_memory_upload_chunks + max_submission_concurrency = %d'
                        % (world.live_chunk_readers, bound))
                adj = world.knobs.get('adjuster') or {}
                neutral = adj.get('max_parts', 10000) >= 10000 and adj.get('min_size', 1) <= 1 \
                    and not world.dirty
                # a stream that returns fewer bytes than asked for although more
                # follow makes the library misjudge the size class; that input is
                # outside the statement ("any object/stream size")
                if any(t.get('short_src') for t in world._all_transfer_specs()):
                    neutral = False
                lim = max(cfg['multipart_chunksize'], cfg['multipart_threshold'])
                if neutral and size > lim:
                    world.violation(
                        'C11', 'upload-buffer-size',
                        'a %d byte part body is held in memory > max(multipart_chunksize, '
                        'multipart_threshold) = %d' % (size, lim))
            closed = [False]
            real_close = rfc.close

            def release():
                if not closed[0]:
                    closed[0] = True
                    world.live_chunk_readers -= 1

            def close():
                release()
                return real_close()
            rfc.close = close
            world.body_release[id(rfc)] = (rfc, release)
            return rfc
        osutil.open_file_chunk_reader_from_fileobj = wrapped

    # ---- C06 namespace invariant, evaluated after every fs mutation ---------------
    def _dest_invariant(self, fs, op, path):
        d = fs.dest_of(path)
        if d is None or d != path:
            return
        t = self.transfers[fs.dests[d]]
        cur = fs.files.get(d)
        if cur is None:
            ok = t['prev'] is None
            # removal of a previously existing destination is exposure of a
            # different state than {previous, complete}
        else:
            cur = bytes(cur)
            ok = (t['prev'] is not None and cur == t['prev']) or cur == t['expect']
        if not ok:
            self.violation('C06', 'partial-visible',
                           'after %s the destination %s holds %r (neither previous nor complete)'
                           % (op, d, _short(cur)))

    # ---- run ------------------------------------------------------------------------
    def run(self):
        # the cyclic GC stays off while simulated threads exist (weakref
        # callbacks and finalisers would run at collector-chosen instants);
        # garbage is collected between runs, with no simulation active
        gc.disable()
        _cur[0] = self
        _install_bw_sleep_probe()
        lp = bool(self.knobs.get('line_preempt'))
        if lp:
            from . import linepre
            lp = linepre.enable()
            self.sim.max_steps *= 25
        try:
            self.sim.run(self._driver)
        finally:
            _cur[0] = None
            if lp:
                linepre.disable()
            simstd.reset_between_runs()
            collect_between_runs()
        return self


_runs_since_collect = [0]


def collect_between_runs(every=40):
    _runs_since_collect[0] += 1
    if _runs_since_collect[0] >= every:
        _runs_since_collect[0] = 0
        gc.collect()


class _WithExit(Exception):
    pass


class _RecordingWorkQueue(simstd.simqueue.SimpleQueue):
    """The executor's work queue; records the order in which IO writes are
    actually enqueued (the append is atomic with the record)."""

    def __init__(self, world, ex):
        super().__init__()
        self._w = world
        self._ex = ex

    def put(self, item, block=True, timeout=None):
        if item is not None and self._ex.role == 'io':
            task = getattr(getattr(item, 'fn', None), '_task', None)
            if type(task).__name__ in ('IOWriteTask', 'IOStreamingWriteTask'):
                mk = task._main_kwargs
                data = mk['data']
                # (a task may carry one block or a run of blocks: the order
                # claim is about the bytes, not about the task shape)
                blocks = list(data) if isinstance(data, (list, tuple)) else [data]
                off = mk.get('offset')
                for b in blocks:
                    self._w.io_submits.setdefault(id(mk['fileobj']), []).append(
                        (off, len(b)))
                    if off is not None:
                        off += len(b)
        return super().put(item, block, timeout)


def _short(b):
    if b is None:
        return None
    if len(b) > 24:
        return bytes(b[:24]) + b'...'
    return bytes(b)
