"""Scenario generation (swarm style): everything is drawn from one
random.Random; the result is a fully explicit, JSON-able scenario."""
import random

RETRYABLE = ('timeout', 'conn', 'readtimeout', 'incomplete', 'streaming')
FATAL = ('client', 'value', 'simfault')


def wchoice(rng, pairs):
    tot = sum(w for _, w in pairs)
    x = rng.random() * tot
    for v, w in pairs:
        x -= w
        if x <= 0:
            return v
    return pairs[-1][0]


def small(rng, lo=1, hi=3, bias1=0.5):
    if rng.random() < bias1:
        return lo
    return rng.randint(lo, hi)


def gen_config(rng, tight=False, bw=False):
    T = rng.randint(1, 12)
    C = rng.randint(1, 8)
    b = 0.65 if tight else 0.35
    c = dict(
        multipart_threshold=T,
        multipart_chunksize=C,
        max_request_concurrency=small(rng, 1, 5, b),
        max_submission_concurrency=small(rng, 1, 3, b),
        max_request_queue_size=small(rng, 1, 5, b),
        max_submission_queue_size=small(rng, 1, 4, b),
        max_io_queue_size=small(rng, 1, 4, b),
        io_chunksize=rng.randint(1, 8),
        num_download_attempts=wchoice(rng, [(1, 1), (2, 3), (3, 3), (5, 2)]),
        max_in_memory_upload_chunks=small(rng, 1, 5, b),
        max_in_memory_download_chunks=small(rng, 1, 5, b),
        max_bandwidth=None,
    )
    if not tight and rng.random() < 0.15:
        # the library's own defaults for the queue sizes
        c['max_request_queue_size'] = 1000
        c['max_submission_queue_size'] = 1000
        c['max_io_queue_size'] = 1000
    return c


def gen_size(rng, cfg, maxsize=40):
    T = cfg['multipart_threshold']
    C = cfg['multipart_chunksize']
    k = rng.randint(1, 5)
    cands = [0, 1, T - 1, T, T + 1, k * C - 1, k * C, k * C + 1,
             rng.randint(0, maxsize), rng.randint(T, T + 4 * C)]
    s = rng.choice(cands)
    return max(0, min(s, maxsize + 8))


def gen_stalls(rng):
    """Stalled-thread fault: a thread of one stage is away (descheduled, paused
    by the VM, stuck in a slow call) for a while at one of its scheduling
    points, while the clock and everybody else go on."""
    if rng.random() < 0.8:
        return []
    role = rng.choice(['request', 'request', 'submission', 'io', 'io', 'driver'])
    # where: any scheduling point (lock operations included), any point at
    # which the thread is inside a call out of the library ('.': file system,
    # service, user stream, callback, pool construction), or one such family
    tag = wchoice(rng, [(None, 3), ('.', 5), ('executor.new', 1), ('fs.', 2), ('dst.write', 1),
                        ('s3.', 2), ('cb.', 1)])
    nth = rng.randint(0, 40) if tag is None else rng.randint(0, 12) if tag == '.' \
        else rng.randint(0, 3)
    return [[role, tag, nth, rng.choice([0.05, 1.0, 30.0])]]


def gen_knobs(rng, cfg, body_tricks=False, short_reads=False):
    k = {
        'progress_threshold': wchoice(rng, [(1, 3), (2, 2), (rng.randint(1, 16), 3),
                                            (256 * 1024, 1)]),
        'sock_chunk': wchoice(rng, [(1, 1), (2, 1), (3, 2), (7, 2), (8192, 2)]),
        'sign_chunk': wchoice(rng, [(1 << 20, 3), (4, 1)]),
        'short_reads': short_reads and rng.random() < 0.7,
        'checksum_calc': wchoice(rng, [('when_required', 2), ('when_supported', 2)]),
        'adjuster': {'min_size': 1, 'max_size': 1 << 40,
                     'max_parts': wchoice(rng, [(10000, 5), (3, 1), (2, 1)])},
        'latency': wchoice(rng, [('none', 6), ('random', 2), ('slow_first', 1),
                                 ('slow_last', 1)]),
        'epoch': wchoice(rng, [(1000.0, 3), (0.0, 1), (1.7e9, 1)]),
        'fs_buffer': wchoice(rng, [(8192, 3), (0, 1), (3, 1)]),
        # slow file-system calls / slow consumers of a destination stream
        'fs_latency': wchoice(rng, [('none', 12), ('slow_open', 1), ('slow_first_write', 1),
                                    ('slow_write', 1), ('random', 1)]),
        'stalls': gen_stalls(rng),
        # statement-level pre-emption inside s3transfer code (slower runs)
        'line_preempt': rng.random() < 0.06,
        'complete_idempotent': rng.random() < 0.5,
    }
    if body_tricks:
        k['pre_read'] = rng.random() < 0.3
        k['sign_read'] = rng.random() < 0.4
        k['chunked'] = rng.random() < 0.3
        k['aws_chunk_size'] = wchoice(rng, [(1 << 20, 2), (3, 1), (5, 1)])
    return k


def gen_strategy(rng, est_steps=600):
    kind = wchoice(rng, [('uniform', 27), ('sticky', 27), ('pct', 18),
                         ('starve', 13), ('rr', 5), ('hold', 10)])
    if kind == 'hold':
        return ['hold', rng.choice(['driver', 'driver', 'submission', 'request', 'io']),
                rng.randint(0, max(1, est_steps)), rng.choice([5, 20, 80, 300]),
                rng.choice([0.3, 0.7])]
    if kind == 'uniform':
        return ['uniform']
    if kind == 'sticky':
        return ['sticky', rng.choice([0.5, 0.8, 0.95])]
    if kind == 'pct':
        return ['pct', rng.randint(1, 3), max(50, int(est_steps * rng.choice([0.5, 1, 2])))]
    if kind == 'starve':
        return ['starve', rng.choice(['io', 'request', 'submission', 'driver']),
                rng.choice([0.3, 0.7])]
    return ['rr', rng.randint(1, 6)]


def gen_subs(rng, nmax=1, reenter=False, done_raise=False, provide=None):
    n = rng.randint(1, nmax)
    subs = [{} for _ in range(n)]
    if provide is not None:
        subs[rng.randrange(n)]['provide_size'] = provide
    if rng.random() < 0.12:
        # callbacks bound on the instance of a plain BaseSubscriber
        subs[rng.randrange(n)]['adapter'] = True
    if reenter and rng.random() < 0.6:
        s = subs[rng.randrange(n)]
        where = rng.choice(['queued', 'progress', 'done'])
        calls = ['done', 'meta', 'set_exception', 'cancel']
        if where == 'done':
            calls.append('result')
        s['reenter'] = {'in': where, 'call': rng.choice(calls)}
    return subs


def gen_transfer(rng, cfg, types, nsubs=1, reenter=False, maxsize=40,
                 provide_prob=0.3):
    ty = wchoice(rng, types)
    size = gen_size(rng, cfg, maxsize)
    spec = {'type': ty, 'size': size}
    provide = None
    if ty == 'upload':
        spec['src'] = wchoice(rng, [('path', 3), ('seekable', 3), ('nonseekable', 3)])
        if spec['src'] == 'seekable':
            spec['offset'] = wchoice(rng, [(0, 2), (rng.randint(1, 9), 2)])
            if rng.random() < 0.3:
                spec['duck'] = True     # no seekable()/readable(): probed by seek/tell
            if rng.random() < 0.25:
                spec['short_seekable'] = True
            if not spec.get('duck') and rng.random() < 0.15:
                # a stream layered over an OS file (gzip-like): fileno() names a
                # file whose size has nothing to do with the stream's length
                spec['wrapped'] = True
        if spec['src'] == 'nonseekable':
            spec['short_src'] = rng.random() < 0.25
        if rng.random() < provide_prob:
            # (a subscriber may announce the size for any source kind; for a
            # seekable stream that is the size from its current position)
            provide = size
    elif ty == 'download':
        spec['dst'] = wchoice(rng, [('path', 4), ('seekable', 2), ('nonseekable', 3),
                                    ('fifo', 1)])
        if spec['dst'] == 'path':
            spec['prev'] = wchoice(rng, [(None, 2), (rng.randint(0, 9), 2)])
        if spec['dst'] == 'seekable' and rng.random() < 0.3:
            spec['duck'] = True
        if rng.random() < provide_prob:
            provide = size
    elif ty == 'copy':
        if rng.random() < provide_prob:
            provide = size
        if rng.random() < 0.15:
            spec['versioned'] = True    # CopySource names a non-current version
    else:
        spec['size'] = 0
    spec['subs'] = gen_subs(rng, nsubs, reenter, provide=provide)
    r = None
    for s in spec['subs']:
        if s.get('reenter'):
            r = s['reenter']
    if r is not None:
        if r['call'] == 'set_exception':
            spec['_reenter_set_exception'] = True
        if r['call'] == 'cancel':
            spec['_reenter_cancel'] = True
    if ty in ('upload', 'copy') and rng.random() < 0.25:
        spec['extra_args'] = {'ChecksumAlgorithm': 'CRC32'}
    elif ty == 'upload' and rng.random() < 0.15:
        # the caller supplies the checksum of the whole object ('@full' is
        # replaced by the CRC32 of the source data when the transfer is built)
        spec['extra_args'] = {'ChecksumCRC32': '@full'}
    elif ty in ('upload', 'copy') and rng.random() < 0.12:
        # customer-provided encryption key: arguments that only SOME of the
        # operations of a multipart transfer accept (the stub validates every
        # call against the service model, as botocore does)
        spec['extra_args'] = {'SSECustomerAlgorithm': 'AES256',
                              'SSECustomerKey': '0123456789abcdef0123456789abcdef'}
    if ty in ('upload', 'copy') and rng.random() < 0.1:
        spec['periodic'] = True     # every part holds the same bytes
    return spec


# ---- logical sites of a transfer (for fault placement) -------------------------

def n_parts(size, chunk):
    return (size + chunk - 1) // chunk


def is_multipart(spec, cfg):
    return spec['size'] >= cfg['multipart_threshold']


def download_ranges(size, cfg):
    C = cfg['multipart_chunksize']
    n = n_parts(size, C)
    out = []
    for i in range(n):
        if i == n - 1:
            out.append('bytes=%d-' % (i * C))
        else:
            out.append('bytes=%d-%d' % (i * C, i * C + C - 1))
    return out


def range_len(size, cfg, rng_str):
    C = cfg['multipart_chunksize']
    if rng_str is None:
        return size
    a = int(rng_str.split('=')[1].split('-')[0])
    return min(C, size - a)


def s3_sites(tidx, spec, cfg):
    """(site dicts) for S3 calls this transfer is expected to make."""
    ty = spec['type']
    out = []
    size = spec['size']
    provided = any(s.get('provide_size') is not None for s in spec.get('subs') or [])
    if ty == 'upload':
        key = 'k%d' % tidx
        if is_multipart(spec, cfg):
            out.append({'op': 'create_multipart_upload', 'key': key})
            for p in range(1, n_parts(size, cfg['multipart_chunksize']) + 1):
                out.append({'op': 'upload_part', 'key': key, 'part': p})
            out.append({'op': 'complete_multipart_upload', 'key': key})
        else:
            out.append({'op': 'put_object', 'key': key})
    elif ty == 'download':
        key = 'o%d' % tidx
        if not provided:
            out.append({'op': 'head_object', 'key': key})
        if is_multipart(spec, cfg):
            for r in download_ranges(size, cfg):
                out.append({'op': 'get_object', 'key': key, 'range': r})
        else:
            out.append({'op': 'get_object', 'key': key, 'range': None})
    elif ty == 'copy':
        key = 'k%d' % tidx
        if not provided:
            out.append({'op': 'head_object', 'key': 'src%d' % tidx})
        if is_multipart(spec, cfg):
            out.append({'op': 'create_multipart_upload', 'key': key})
            for p in range(1, n_parts(size, cfg['multipart_chunksize']) + 1):
                out.append({'op': 'upload_part_copy', 'key': key, 'part': p})
            out.append({'op': 'complete_multipart_upload', 'key': key})
        else:
            out.append({'op': 'copy_object', 'key': key})
    else:
        out.append({'op': 'delete_object', 'key': 'del%d' % tidx})
    return out


# non-retryable failures of any family: service errors, programming errors and
# plain OSErrors (which must not be mistaken for the retryable socket errors)
FATAL_EXC = ['client', 'client', 'simfault', 'value', 'eio', 'permission', 'runtime']


def gen_fatal_fault(rng, tidx, spec, cfg, kinds=None):
    """One fault from the C03 list for this transfer."""
    ty = spec['type']
    opts = ['s3']
    if ty == 'upload':
        opts += ['src', 'cbq', 'cbp']
    elif ty == 'download':
        opts += ['stream_fatal', 'dstw', 'cbq', 'cbp', 'exhaust']
        if spec['dst'] == 'path':
            opts += ['fs', 'fs']
    elif ty == 'copy':
        opts += ['cbq', 'cbp']
    else:
        opts += ['cbq']
    if kinds:
        opts = [o for o in opts if o in kinds] or ['s3']
    k = rng.choice(opts)
    if k == 's3':
        site = rng.choice(s3_sites(tidx, spec, cfg))
        f = {'site': 's3', 'when': rng.choice(['before', 'after']),
             'exc': rng.choice(FATAL_EXC)}
        f.update(site)
        if site['op'] != 'get_object' and rng.random() < 0.25:
            # a network error of the family that is retryable for download
            # streams is still fatal for every other request (and the service
            # may have applied the call: 'after')
            f['exc'] = rng.choice(['conn', 'readtimeout', 'timeout'])
        return [f]
    if k == 'src':
        if spec['src'] == 'path' and rng.random() < 0.2:
            return [{'site': 'fs', 'op': 'getsize', 'path': '/d/up%d' % tidx,
                     'nth': rng.randint(0, 2), 'exc': rng.choice(['oserror', 'eio'])}]
        if spec['src'] == 'path':
            return [{'site': 'fs', 'op': 'read', 'path': '/d/up%d' % tidx,
                     'nth': rng.randint(0, 3), 'exc': 'oserror'}]
        return [{'site': 'src', 't': tidx, 'nth': rng.randint(0, 3), 'exc': 'oserror'}]
    if k == 'cbq':
        return [{'site': 'cb', 't': tidx, 'kind': 'queued', 'sub': 0,
                 'exc': rng.choice(['simfault', 'simfault', 'eio', 'value'])}]
    if k == 'cbp':
        return [{'site': 'cb', 't': tidx, 'kind': 'progress', 'sub': 0,
                 'nth': rng.randint(0, 3),
                 'exc': rng.choice(['simfault', 'simfault', 'eio', 'permission', 'value'])}]
    if k == 'stream_fatal':
        rngs = download_ranges(spec['size'], cfg) if is_multipart(spec, cfg) else [None]
        r = rng.choice(rngs)
        return [{'site': 'stream', 'key': 'o%d' % tidx, 'range': r, 'attempt': 0,
                 'at': rng.randint(0, max(0, range_len(spec['size'], cfg, r))),
                 'exc': rng.choice(FATAL_EXC)}]
    if k == 'exhaust':
        rngs = download_ranges(spec['size'], cfg) if is_multipart(spec, cfg) else [None]
        r = rng.choice(rngs)
        L = range_len(spec['size'], cfg, r)
        return [{'site': 'stream', 'key': 'o%d' % tidx, 'range': r, 'attempt': a,
                 'at': rng.randint(0, max(0, L)), 'exc': rng.choice(RETRYABLE)}
                for a in range(cfg['num_download_attempts'])]
    if k == 'dstw':
        wexc = rng.choice(['oserror', 'oserror', 'brokenpipe'])
        if spec['dst'] in ('seekable', 'nonseekable'):
            return [{'site': 'dst', 't': tidx, 'nth': rng.randint(0, 3), 'exc': wexc}]
        if spec['dst'] == 'path':
            return [{'site': 'fs', 'op': 'write', 'dest': '/d/down%d' % tidx,
                     'nth': rng.randint(0, 3), 'exc': 'oserror',
                     'short': rng.random() < 0.5, 'sticky': rng.random() < 0.35}]
        return [{'site': 'fs', 'op': 'write', 'path': '/d/fifo%d' % tidx,
                 'nth': rng.randint(0, 3), 'exc': wexc}]
    if k == 'fs':
        op = rng.choice(['open', 'write', 'close', 'rename'])
        f = {'site': 'fs', 'op': op, 'dest': '/d/down%d' % tidx, 'exc': 'oserror'}
        if op == 'write':
            f['nth'] = rng.randint(0, 3)
            f['short'] = rng.random() < 0.5
            f['sticky'] = rng.random() < 0.35
        if op == 'open':
            f['mode'] = 'w'
        return [f]
    raise ValueError(k)


def gen_stream_retries(rng, tidx, spec, cfg, max_per_range=None):
    """Fewer than num_download_attempts retryable stream faults per request."""
    out = []
    rngs = download_ranges(spec['size'], cfg) if is_multipart(spec, cfg) else [None]
    budget = cfg['num_download_attempts'] - 1
    if max_per_range is not None:
        budget = min(budget, max_per_range)
    for r in rngs:
        if budget <= 0 or rng.random() < 0.45:
            continue
        n = rng.randint(1, budget)
        L = range_len(spec['size'], cfg, r)
        calls = streams = 0
        for a in range(n):
            if rng.random() < 0.25:
                # the GetObject call itself fails with a retryable error
                out.append({'site': 's3', 'op': 'get_object', 'key': 'o%d' % tidx,
                            'range': r, 'nth': calls, 'when': 'before',
                            'exc': rng.choice(['conn', 'timeout', 'readtimeout'])})
            else:
                out.append({'site': 'stream', 'key': 'o%d' % tidx, 'range': r,
                            'attempt': streams, 'at': rng.randint(0, max(0, L)),
                            'exc': rng.choice(RETRYABLE)})
                streams += 1
            calls += 1
    return out


def gen_rewinds(rng, tidx, spec, cfg):
    out = []
    if spec['type'] != 'upload':
        return out
    key = 'k%d' % tidx
    if is_multipart(spec, cfg):
        for p in range(1, n_parts(spec['size'], cfg['multipart_chunksize']) + 1):
            if rng.random() < 0.4:
                n = rng.randint(1, 3)
                out.append({'site': 'rewind', 'op': 'upload_part', 'key': key,
                            'part': p,
                            'at': [rng.randint(0, cfg['multipart_chunksize'] + 1)
                                   for _ in range(n)]})
    elif rng.random() < 0.6:
        n = rng.randint(1, 3)
        out.append({'site': 'rewind', 'op': 'put_object', 'key': key, 'part': None,
                    'at': [rng.randint(0, spec['size'] + 1) for _ in range(n)]})
    return out


def est_steps(transfers, cfg):
    n = 60
    for t in transfers:
        parts = n_parts(t['size'], cfg['multipart_chunksize']) if t['size'] >= cfg['multipart_threshold'] else 1
        n += 80 + 45 * parts + 6 * t['size']
    return n


ALL_TYPES = [('upload', 4), ('download', 4), ('copy', 2), ('delete', 1)]


def base(rng, types=ALL_TYPES, nmax=3, tight=False, nsubs=1, reenter=False,
         body_tricks=False, short_reads=False, maxsize=40):
    cfg = gen_config(rng, tight)
    n = rng.randint(1, nmax)
    transfers = [gen_transfer(rng, cfg, types, nsubs, reenter, maxsize)
                 for _ in range(n)]
    sc = {'config': cfg,
          'knobs': gen_knobs(rng, cfg, body_tricks, short_reads),
          'transfers': transfers, 'faults': [], 'fs_seed': rng.randrange(1 << 30)}
    sc['strategy'] = gen_strategy(rng, est_steps(transfers, cfg))
    sc['max_steps'] = 60 * est_steps(transfers, cfg) + 20000
    return sc


def plain_script(n, shutdown=True):
    s = [['submit', i] for i in range(n)] + [['result', i] for i in range(n)]
    if shutdown:
        s.append(['shutdown'])
    return s


# ---- per-property generators ------------------------------------------------------

MiB = 1024 * 1024


def realscale(rng, types):
    """The library's real constants: 5 MiB / 5 GiB / 10 000 part limits, 8 MiB
    default threshold, 256 KiB progress / bandwidth / io thresholds."""
    chunk = rng.choice([5 * MiB, 8 * MiB, 6 * MiB + 1])
    cfg = dict(multipart_threshold=rng.choice([8 * MiB, 5 * MiB, 6 * MiB]),
               multipart_chunksize=chunk,
               max_request_concurrency=rng.choice([1, 2, 3]),
               max_submission_concurrency=rng.choice([1, 2]),
               max_request_queue_size=1000, max_submission_queue_size=1000,
               max_io_queue_size=rng.choice([2, 1000]), io_chunksize=256 * 1024,
               num_download_attempts=rng.choice([2, 5]),
               max_in_memory_upload_chunks=rng.choice([1, 2, 10]),
               max_in_memory_download_chunks=rng.choice([1, 2, 10]), max_bandwidth=None)
    n = rng.choice([1, 1, 2])
    transfers = []
    T = cfg['multipart_threshold']
    for _ in range(n):
        size = rng.choice([300 * 1024, 600 * 1024 + 7, T - 1, T, T + 1, chunk * 2,
                           chunk * 2 + 1, chunk + 5 * MiB - 1, 17 * MiB + 3])
        t = gen_transfer(rng, cfg, types, 1, False, 40, provide_prob=0.3)
        t['size'] = size
        for sub in t['subs']:
            if sub.get('provide_size') is not None:
                sub['provide_size'] = size
        if t.get('prev') is not None:
            t['prev'] = rng.randint(0, 9)
        t.pop('short_src', None)
        transfers.append(t)
    knobs = {'sock_chunk': rng.choice([8192, 65536, 1 << 20]), 'short_reads': rng.random() < 0.5,
             'checksum_calc': rng.choice(['when_required', 'when_supported']),
             'latency': 'none', 'epoch': 1.7e9, 'fs_buffer': 8192,
             'min_part_size': 5 * MiB, 'real_scale': True,
             'sign_read': rng.random() < 0.3, 'pre_read': rng.random() < 0.2,
             'chunked': rng.random() < 0.3}
    sc = {'config': cfg, 'knobs': knobs, 'transfers': transfers, 'faults': [],
          'fs_seed': rng.randrange(1 << 30)}
    sc['strategy'] = gen_strategy(rng, 3000)
    sc['max_steps'] = 2000000
    return sc


def gen_C01(rng):
    if rng.random() < 0.03:
        sc = realscale(rng, [('upload', 5), ('copy', 2)])
        for i, t in enumerate(sc['transfers']):
            if t['type'] == 'upload' and rng.random() < 0.4:
                sc['faults'].append({'site': 'rewind', 'op': 'put_object' if t['size'] <
                                     sc['config']['multipart_threshold'] else 'upload_part',
                                     'key': 'k%d' % i,
                                     'part': None if t['size'] < sc['config']['multipart_threshold']
                                     else 1, 'at': [rng.randint(0, 700 * 1024)]})
        return sc
    sc = base(rng, [('upload', 5), ('copy', 2)], nmax=3, body_tricks=True)
    for i, t in enumerate(sc['transfers']):
        if rng.random() < 0.6:
            sc['faults'] += gen_rewinds(rng, i, t, sc['config'])
    if rng.random() < 0.15:
        # one failing step: on the shipped code the transfer then fails and the
        # statement says nothing, but a change that swallows or "retries" the
        # error reports success for an object that is not the source
        i = rng.randrange(len(sc['transfers']))
        sc['faults'] += gen_fatal_fault(rng, i, sc['transfers'][i], sc['config'])
    paths = [i for i, t in enumerate(sc['transfers'])
             if t['type'] == 'upload' and t.get('src') == 'path']
    if paths and not sc['faults'] and rng.random() < 0.2:
        # the application rewrites a file it has uploaded and uploads it again
        # through the same manager: the object is what the file holds NOW
        i = rng.choice(paths)
        old = sc['transfers'][i]['size']
        cfg = sc['config']
        new = rng.choice([old + 1, old + rng.randint(1, 2 * cfg['multipart_chunksize'] + 2),
                          max(0, old - rng.randint(1, max(1, old)))])
        n = len(sc['transfers'])
        sc['driver'] = [['submit', k] for k in range(n)] + [['result', k] for k in range(n)] + \
            [['fresh', {'type': 'upload', 'src': 'path', 'size': new, 'subs': [{}],
                        'path_override': '/d/up%d' % i}], ['shutdown']]
    return sc


def gen_C02(rng):
    if rng.random() < 0.03:
        sc = realscale(rng, [('download', 1)])
        cfg = sc['config']
        for i, t in enumerate(sc['transfers']):
            if rng.random() < 0.5:
                rngs = download_ranges(t['size'], cfg) if is_multipart(t, cfg) else [None]
                r = rng.choice(rngs)
                sc['faults'].append({'site': 'stream', 'key': 'o%d' % i, 'range': r,
                                     'attempt': 0, 'exc': rng.choice(RETRYABLE),
                                     'at': rng.randint(0, min(range_len(t['size'], cfg, r),
                                                              900 * 1024))})
        return sc
    sc = base(rng, [('download', 1)], nmax=3, short_reads=True)
    if rng.random() < 0.6:
        for i, t in enumerate(sc['transfers']):
            sc['faults'] += gen_stream_retries(rng, i, t, sc['config'])
    if rng.random() < 0.1:
        i = rng.randrange(len(sc['transfers']))
        sc['faults'] += gen_fatal_fault(rng, i, sc['transfers'][i], sc['config'])
        _dedupe_stream(sc)
    dls = [i for i, t in enumerate(sc['transfers']) if t['type'] == 'download']
    pdl = [i for i in dls if sc['transfers'][i].get('dst') == 'path']
    if pdl and not sc.get('driver') and not sc['faults'] and rng.random() < 0.08:
        # the same object downloaded to the same path by two transfers that are
        # in flight together (each works in a temporary file of its own)
        i = rng.choice(pdl)
        twin = dict(sc['transfers'][i])
        twin['subs'] = [{}]
        twin.update({'twin_of': i, 'key_override': 'o%d' % i, 'path_override': '/d/down%d' % i})
        sc['transfers'].append(twin)
        return sc
    if dls and not sc.get('driver') and not sc['faults'] and rng.random() < 0.12:
        # the object is replaced (other size) and downloaded again through the
        # same manager: the destination holds what the object is NOW
        i = rng.choice(dls)
        old = sc['transfers'][i]['size']
        cfg = sc['config']
        new = rng.choice([old + 1, old + rng.randint(1, 2 * cfg['multipart_chunksize'] + 2),
                          max(0, old - rng.randint(1, max(1, old)))])
        n = len(sc['transfers'])
        sc['driver'] = [['submit', k] for k in range(n)] + [['result', k] for k in range(n)] + \
            [['fresh', {'type': 'download', 'dst': rng.choice(['seekable', 'nonseekable']),
                        'size': new, 'subs': [{}], 'key_override': 'o%d' % i}], ['shutdown']]
    return sc

def gen_C03(rng):
    sc = base(rng, ALL_TYPES, nmax=2, short_reads=True, maxsize=24)
    n = len(sc['transfers'])
    if rng.random() < 0.05:
        # use_threads=False: every step runs on the caller's thread, where a
        # Ctrl-C can arrive inside a request, a read, a write or a callback
        sc['knobs']['serial'] = True
        sc['knobs']['line_preempt'] = False
        sc['knobs']['stalls'] = []
        i = rng.randrange(n)
        fs_ = gen_fatal_fault(rng, i, sc['transfers'][i], sc['config'])
        for f in fs_:
            if f.get('site') in ('s3', 'src', 'dst', 'cb'):
                f['exc'] = 'kbi'
        sc['faults'] += fs_
        _dedupe_stream(sc)
        return sc
    i = rng.randrange(n)
    sc['faults'] += gen_fatal_fault(rng, i, sc['transfers'][i], sc['config'])
    if rng.random() < 0.3:
        j = rng.randrange(n)
        sc['faults'] += gen_fatal_fault(rng, j, sc['transfers'][j], sc['config'])
    if rng.random() < 0.3:
        for k, t in enumerate(sc['transfers']):
            if t['type'] == 'download':
                sc['faults'] += gen_stream_retries(rng, k, t, sc['config'], 1)
    _dedupe_stream(sc)
    for f in sc['faults']:
        if f.get('site') in ('cb', 'src', 'dst') and rng.random() < 0.15:
            # the failing step raises the package's own CancelledError although
            # nobody cancelled this transfer
            f['exc'] = 'cancellederr'
    if rng.random() < 0.2:
        # ... and the manager is told to cancel everything while the failed
        # transfer still has tasks in flight: the failure recorded first stays
        n = len(sc['transfers'])
        est = est_steps(sc['transfers'], sc['config'])
        step = rng.randint(0, int(est * 1.1))
        if rng.random() < 0.6:
            kw = {'cancel': True}
            if rng.random() < 0.7:
                kw['cancel_msg'] = rng.choice(['', 'stop now'])
            sc['driver'] = [['submit', i] for i in range(n)] + \
                [['wait_step', step], ['shutdown', kw, True]] + [['result', i] for i in range(n)]
        else:
            sc['driver'] = [['submit', i] for i in range(n)] + \
                [['wait_step', step], ['with_raise', rng.choice(['exc', 'kbi']), 'x', True]]
    return sc


def _dedupe_stream(sc):
    seen = set()
    out = []
    for f in sc['faults']:
        if f['site'] == 'stream':
            k = (f['key'], f.get('range'), f.get('attempt'))
            if k in seen:
                continue
            seen.add(k)
        out.append(f)
    sc['faults'] = out


def _mass_hold(rng, n):
    """[state, victim, scheduling points to skip] for a held mass cancel: the
    controller's loop takes its own lock first and then each coordinator's."""
    return [rng.choice(['inflight', 'inflight', 'part', 'part', 'running', 'done']),
            rng.randrange(n), rng.randint(0, 2 * n + 1)]


def add_cancel_script(rng, sc, how=None, allow_ctrlc=True):
    n = len(sc['transfers'])
    est = est_steps(sc['transfers'], sc['config'])
    step = rng.randint(0, int(est * 1.1))
    how = how or wchoice(rng, [('future', 4), ('shutdown', 3), ('with', 3),
                               ('ctrlc_result', 1.5 if allow_ctrlc else 0),
                               ('ctrlc_shutdown', 1.0 if allow_ctrlc else 0),
                               ('ctrlc_exit', 1.0 if allow_ctrlc else 0)])
    atomic = rng.random() < 0.7
    k = rng.randint(1, n)      # how many are submitted before the cancel
    pre = [['submit', i] for i in range(k)]
    post_submit = [['submit', i] for i in range(k, n)]
    results = [['result', i] for i in range(n)]
    msg = rng.choice(['', 'stop now', 'x'])
    if how == 'future':
        victim = rng.randrange(k)
        act = ['cancel', victim, atomic]
        if not atomic and rng.random() < 0.6:
            act.append(rng.choice(['inflight', 'inflight', 'part', 'part', 'running', 'done']))
            act.append(rng.choice([0, 0, 0, 1, 2]))     # scheduling points to skip first
            if rng.random() < 0.5:
                step = rng.randint(0, 12)      # cancel early: often still not started
        sc['driver'] = pre + [['wait_step', step], act] + \
            post_submit + results + [['shutdown']]
    elif how == 'shutdown':
        kw = {'cancel': True}
        if rng.random() < 0.8:
            kw['cancel_msg'] = msg
        act = ['shutdown', kw, atomic]
        if not atomic and rng.random() < 0.5:
            act.append(_mass_hold(rng, n))
            if rng.random() < 0.5:
                step = rng.randint(0, 12)
        sc['driver'] = [['submit', i] for i in range(n)] + \
            [['wait_step', step], act] + results
    elif how == 'with':
        kind = rng.choice(['exc', 'exc', 'kbi', 'cancelerr'])
        act = ['with_raise', kind, msg, atomic]
        if not atomic and rng.random() < 0.5:
            act.append(_mass_hold(rng, n))
            if rng.random() < 0.5:
                step = rng.randint(0, 12)
        sc['driver'] = [['submit', i] for i in range(n)] + \
            [['wait_step', step], act]
    elif how == 'ctrlc_result':
        sc['driver'] = [['use_with']] + [['submit', i] for i in range(n)] + \
            [['interrupt_at', step]] + results
    elif how == 'ctrlc_exit':
        # the with-block ends normally; Ctrl-C arrives while __exit__ waits
        sc['driver'] = [['use_with']] + [['submit', i] for i in range(n)] + \
            [['interrupt_at', step]]
    elif how == 'ctrlc_shutdown':
        sc['driver'] = [['submit', i] for i in range(n)] + \
            [['interrupt_at', step], ['shutdown']] + results
    sc['cancel_how'] = how
    return sc


def _maybe_bandwidth(rng, sc, p=0.15):
    if rng.random() < p:
        sc['config']['max_bandwidth'] = rng.choice([8, 64, 1000])
        sc['knobs']['bw_threshold'] = rng.choice([1, 4, 16])
    return sc


def gen_C04(rng):
    if rng.random() < 0.2:
        sc = contention(rng, 'down' if rng.random() < 0.7 else 'up')
        sc['knobs']['latency'] = wchoice(rng, [('none', 2), ('random', 4), ('slow_first', 3),
                                               ('slow_last', 1)])
        return sc
    sc = base(rng, ALL_TYPES, nmax=4, tight=True, nsubs=2, reenter=True,
              short_reads=True, maxsize=30)
    _maybe_bandwidth(rng, sc)
    n = len(sc['transfers'])
    if rng.random() < 0.35:
        i = rng.randrange(n)
        sc['faults'] += gen_fatal_fault(rng, i, sc['transfers'][i], sc['config'])
    if rng.random() < 0.2:
        for k, t in enumerate(sc['transfers']):
            if t['type'] == 'download':
                sc['faults'] += gen_stream_retries(rng, k, t, sc['config'], 1)
    _dedupe_stream(sc)
    if rng.random() < 0.5:
        add_cancel_script(rng, sc)
    if rng.random() < 0.06:
        # a call the manager rejects (unsupported bucket) somewhere between the
        # submissions: it must leave nothing behind that shutdown waits for
        script = sc.get('driver') or plain_script(n)
        k = rng.randint(0, max(0, len(script) - 1))
        sc['driver'] = script[:k] + [['bad_call', rng.choice(['upload', 'download', 'copy',
                                                              'delete'])]] + script[k:]
    return sc


def gen_C05(rng):
    cfg_types = [('upload', 3), ('copy', 2)]
    sc = base(rng, cfg_types, nmax=2, maxsize=30)
    cfg = sc['config']
    for t in sc['transfers']:
        # force multipart
        if t['size'] < cfg['multipart_threshold']:
            t['size'] = cfg['multipart_threshold'] + rng.randint(0, 3 * cfg['multipart_chunksize'])
            for s in t['subs']:
                if s.get('provide_size') is not None:
                    s['provide_size'] = t['size']
    sc['strategy'] = gen_strategy(rng, est_steps(sc['transfers'], cfg))
    n = len(sc['transfers'])
    r = rng.random()
    if r < 0.08:
        # use_threads=False (NonThreadedExecutor): every request runs on the
        # caller's thread, where a Ctrl-C can arrive in the middle of it
        sc['knobs']['serial'] = True
        sc['knobs']['line_preempt'] = False
        i = rng.randrange(n)
        site = rng.choice(s3_sites(i, sc['transfers'][i], cfg))
        f = {'site': 's3', 'when': rng.choice(['before', 'after']),
             'exc': rng.choice(['kbi', 'kbi', 'client'])}
        f.update(site)
        sc['faults'].append(f)
        return sc
    if r < 0.5:
        i = rng.randrange(n)
        sc['faults'] += gen_fatal_fault(rng, i, sc['transfers'][i], cfg)
    elif r < 0.9:
        add_cancel_script(rng, sc, allow_ctrlc=True)
    else:
        # a cancel that lands exactly while a part request is in flight, with
        # the submission thread lagging behind the request threads (it has
        # handed the part over and not yet done its own bookkeeping)
        sc['knobs']['latency'] = rng.choice(['random', 'slow_first', 'slow_last'])
        sc['knobs']['stalls'] = []
        est = est_steps(sc['transfers'], cfg)
        sc['strategy'] = ['starve', 'submission', rng.choice([0.3, 0.7])] \
            if rng.random() < 0.6 else ['hold', 'submission', rng.randint(0, est), 300, 0.7]
        victim = rng.randrange(n)
        vt = sc['transfers'][victim]
        if vt['type'] == 'upload' and vt.get('src') in ('seekable', 'nonseekable') \
                and rng.random() < 0.6:
            # ... and the submission then fails on its own: the caller closes
            # the stream it has just cancelled the upload of (a later read of
            # the source raises)
            sc['faults'].append({'site': 'src', 't': victim, 'nth': rng.randint(1, 4),
                                 'exc': rng.choice(['value', 'oserror'])})
        sc['driver'] = [['submit', i] for i in range(n)] + \
            [['cancel', victim, False, 'part', rng.choice([0, 0, 1])]] + \
            [['result', i] for i in range(n)] + [['shutdown']]
    return sc


def gen_C06(rng):
    sc = base(rng, [('download', 1)], nmax=2, short_reads=True, maxsize=30)
    cfg = sc['config']
    for t in sc['transfers']:
        t['dst'] = 'path'
        t.setdefault('prev', wchoice(rng, [(None, 2), (rng.randint(0, 9), 2)]))
    n = len(sc['transfers'])
    r = rng.random()
    if r < 0.45:
        i = rng.randrange(n)
        sc['faults'] += gen_fatal_fault(rng, i, sc['transfers'][i], cfg)
    elif r < 0.8:
        add_cancel_script(rng, sc)
    if rng.random() < 0.3:
        for k, t in enumerate(sc['transfers']):
            sc['faults'] += gen_stream_retries(rng, k, t, cfg, 1)
    _dedupe_stream(sc)
    return sc


def gen_C07(rng):
    sc = base(rng, ALL_TYPES, nmax=3, tight=rng.random() < 0.5, nsubs=2,
              short_reads=True, maxsize=30)
    r = rng.random()
    if r < 0.35:
        # a request that fails while (or after) the cancel lands - most often
        # the transfer's final request: the cancellation recorded first must
        # stay the reported outcome
        i = rng.randrange(len(sc['transfers']))
        t = sc['transfers'][i]
        sites = s3_sites(i, t, sc['config'])
        site = sites[-1] if rng.random() < 0.7 else rng.choice(sites)
        if t['type'] == 'download' and t.get('dst') == 'path' and rng.random() < 0.5:
            # (a failing close of the temporary file: in a cancelled download it
            # is the first of two cleanups - the second must still remove the file)
            sc['faults'].append({'site': 'fs', 'op': rng.choice(['rename', 'rename', 'close']),
                                 'dest': '/d/down%d' % i, 'exc': 'oserror'})
        else:
            f = {'site': 's3', 'when': rng.choice(['before', 'after']),
                 'exc': rng.choice(FATAL_EXC + (['conn', 'readtimeout']
                                                if site['op'] != 'get_object' else []))}
            f.update(site)
            sc['faults'].append(f)
    add_cancel_script(rng, sc)
    return sc


def gen_C08(rng):
    sc = base(rng, ALL_TYPES, nmax=3, tight=rng.random() < 0.5, nsubs=3,
              short_reads=True, maxsize=30)
    n = len(sc['transfers'])
    r = rng.random()
    if r < 0.3:
        i = rng.randrange(n)
        sc['faults'] += gen_fatal_fault(rng, i, sc['transfers'][i], sc['config'])
    elif r < 0.65:
        add_cancel_script(rng, sc)
    if rng.random() < 0.4:
        i = rng.randrange(n)
        ns = len(sc['transfers'][i]['subs'])
        sc['faults'].append({'site': 'cb', 't': i, 'kind': 'done',
                             'sub': rng.randrange(ns), 'exc': 'simfault'})
    return sc


def gen_C09(rng):
    if rng.random() < 0.5:
        sc = gen_C01(rng)
    else:
        sc = gen_C02(rng)
    for t in sc['transfers']:
        if len(t['subs']) < 2 and rng.random() < 0.3:
            t['subs'].append({})
    if rng.random() < 0.2 and not sc.get('driver'):
        # a second manager on the same client is shut down before / while this
        # one transfers (applications create one manager per batch)
        sc['knobs']['sibling'] = rng.choice(['before', 'during'])
        sc['knobs']['sibling_at'] = rng.randrange(8)
    return sc


def contention(rng, kind=None):
    """Several stream transfers competing for one tag semaphore: 2-3 submission
    threads, in-memory limits of 1-2, many parts."""
    kind = kind or rng.choice(['down', 'down', 'up'])
    types = [('download', 1)] if kind == 'down' else [('upload', 1)]
    sc = base(rng, types, nmax=3, tight=True, short_reads=True, maxsize=40)
    cfg = sc['config']
    cfg['max_submission_concurrency'] = rng.choice([2, 3])
    cfg['max_submission_queue_size'] = rng.choice([2, 3, 5])
    cfg['max_request_concurrency'] = rng.choice([1, 2, 3, 4, 5])
    cfg['max_in_memory_download_chunks'] = rng.choice([1, 1, 2, 3, 4, 5])
    cfg['max_in_memory_upload_chunks'] = rng.choice([1, 1, 2, 3, 4])
    cfg['max_request_queue_size'] = rng.choice([1, 2, 5, 1000])
    cfg['multipart_chunksize'] = rng.randint(1, 4)
    cfg['multipart_threshold'] = rng.randint(1, 6)
    while len(sc['transfers']) < 2:
        sc['transfers'].append(gen_transfer(rng, cfg, types))
    for t in sc['transfers']:
        t['size'] = max(t['size'], cfg['multipart_threshold'] +
                        cfg['multipart_chunksize'] * rng.randint(2, 6))
        for sub in t['subs']:
            if sub.get('provide_size') is not None:
                sub['provide_size'] = t['size']
        if kind == 'down':
            t['dst'] = rng.choice(['nonseekable', 'nonseekable', 'fifo'])
            t.pop('prev', None)
        else:
            if t.get('src') == 'path':
                t['src'] = rng.choice(['seekable', 'nonseekable'])
                t['offset'] = 0
    sc['knobs']['adjuster']['max_parts'] = 10000
    sc['strategy'] = gen_strategy(rng, est_steps(sc['transfers'], cfg))
    sc['max_steps'] = 60 * est_steps(sc['transfers'], cfg) + 20000
    return sc


def gen_C10(rng):
    """The limits hold - and a full stage makes the submitter wait, never fail -
    also for the tasks of transfers that failed or were cancelled part-way."""
    r = rng.random()
    if r < 0.3:
        sc = contention(rng)
        sc['knobs']['latency'] = wchoice(rng, [('none', 3), ('random', 3), ('slow_first', 2)])
        return _maybe_disturb(rng, sc)
    if r < 0.45:
        sc = io_pressure(rng)
        if rng.random() < 0.5:
            sc.pop('driver', None)      # plain submit / result / shutdown
        return sc
    sc = base(rng, ALL_TYPES, nmax=6, tight=True, short_reads=True, maxsize=36)
    sc['knobs']['latency'] = wchoice(rng, [('none', 3), ('random', 4), ('slow_first', 2),
                                           ('slow_last', 1)])
    return _maybe_disturb(rng, sc)


def gen_C11(rng):
    if rng.random() < 0.3:
        sc = contention(rng)
        sc['knobs']['latency'] = wchoice(rng, [('none', 2), ('random', 3), ('slow_first', 4)])
        return _maybe_disturb(rng, sc)
    kind = rng.choice(['up', 'down', 'io'])
    if kind == 'up':
        sc = base(rng, [('upload', 1)], nmax=3, tight=True, maxsize=48)
        for t in sc['transfers']:
            if t['src'] == 'path':
                t['src'] = rng.choice(['seekable', 'nonseekable'])
                if t['src'] == 'seekable':
                    t['offset'] = 0
    elif kind == 'down':
        sc = base(rng, [('download', 1)], nmax=3, tight=True, short_reads=True, maxsize=48)
        for t in sc['transfers']:
            t['dst'] = rng.choice(['nonseekable', 'nonseekable', 'fifo'])
            t.pop('prev', None)
    else:
        sc = base(rng, [('download', 1)], nmax=3, tight=True, short_reads=True, maxsize=48)
    sc['knobs']['latency'] = wchoice(rng, [('none', 2), ('random', 3), ('slow_first', 4),
                                           ('slow_last', 1)])
    sc['knobs']['adjuster']['max_parts'] = 10000
    if kind == 'up' and rng.random() < 0.25:
        # the part-count limit in play: known sizes at and around
        # max_parts x chunksize (x 2^j), where the chunk size may double only
        # if the parts would otherwise not fit
        m = rng.choice([2, 3, 4])
        sc['knobs']['adjuster']['max_parts'] = m
        cfg = sc['config']
        for t in sc['transfers']:
            t['size'] = max(cfg['multipart_threshold'],
                            m * cfg['multipart_chunksize'] * rng.choice([1, 1, 2]) +
                            rng.choice([0, 0, 0, -1, 1]))
            if t['src'] == 'nonseekable' and rng.random() < 0.6 and t['subs']:
                t['subs'][0]['provide_size'] = t['size']
            for sub in t['subs']:
                if sub.get('provide_size') is not None:
                    sub['provide_size'] = t['size']
        sc['max_steps'] = 60 * est_steps(sc['transfers'], cfg) + 20000
    if rng.random() < 0.5:
        sc['strategy'] = ['starve', rng.choice(['io', 'request']), 0.5]
    _maybe_disturb(rng, sc)
    return sc


def _maybe_disturb(rng, sc, p=0.3):
    """The bounds hold at any time - also after a transfer failed or was
    cancelled part-way while the others keep going."""
    if rng.random() >= p:
        return sc
    n = len(sc['transfers'])
    i = rng.randrange(n)
    t = sc['transfers'][i]
    if rng.random() < 0.5:
        est = est_steps(sc['transfers'], sc['config'])
        sc['driver'] = [['submit', k] for k in range(n)] + \
            [['wait_step', rng.randint(0, est)], ['cancel', i, True]] + \
            [['result', k] for k in range(n)] + [['shutdown']]
    elif t['type'] == 'upload' and is_multipart(t, sc['config']):
        sc['faults'].append({'site': 's3', 'op': 'upload_part', 'key': 'k%d' % i,
                             'part': rng.randint(1, 2), 'when': 'before', 'exc': 'client'})
    elif t['type'] == 'download':
        sc['faults'] += gen_fatal_fault(rng, i, t, sc['config'], ['s3', 'stream_fatal'])
    return sc


def gen_C16(rng):
    """End-to-end downloads to streaming destinations: stream retries with
    differing chunk boundaries, and destination writes that fail with an
    exception of the retryable network family (BrokenPipeError, timeout)."""
    sc = gen_C02(rng)
    for t in sc['transfers']:
        t['dst'] = rng.choice(['nonseekable', 'nonseekable', 'fifo'])
        t.pop('prev', None)
    if rng.random() < 0.35:
        i = rng.randrange(len(sc['transfers']))
        t = sc['transfers'][i]
        exc = rng.choice(['brokenpipe', 'brokenpipe', 'timeout', 'oserror', 'blockingio',
                          'blockingio'])
        if t['dst'] == 'fifo' and exc == 'blockingio':
            t['dst'] = 'nonseekable'
        if t['dst'] == 'fifo':
            sc['faults'].append({'site': 'fs', 'op': 'write', 'path': '/d/fifo%d' % i,
                                 'nth': rng.randint(0, 3), 'exc': exc})
        else:
            sc['faults'].append({'site': 'dst', 't': i, 'nth': rng.randint(0, 3), 'exc': exc,
                                 'partial': rng.randint(0, 7)})
    elif rng.random() < 0.08 and not sc.get('driver'):
        # use_threads=False: the writes run on the caller's thread, where a
        # Ctrl-C can arrive in the middle of one
        sc['knobs']['serial'] = True
        sc['knobs']['line_preempt'] = False
        sc['knobs']['stalls'] = []
        i = rng.randrange(len(sc['transfers']))
        if sc['transfers'][i]['dst'] == 'fifo':
            sc['transfers'][i]['dst'] = 'nonseekable'
        sc['faults'] = [f for f in sc['faults'] if f.get('site') != 'dst']
        sc['faults'].append({'site': 'dst', 't': i, 'nth': rng.randint(0, 4), 'exc': 'kbi'})
    return sc


def gen_C13(rng):
    """End-to-end transfers through a manager with max_bandwidth set."""
    r0 = rng.random()
    if r0 < 0.12:
        # two managers built from ONE TransferConfig object: the limit and its
        # bookkeeping are per manager, so whatever the other manager moves, a
        # single body below the batching threshold on this manager (charged
        # once, at close, to a bucket that has seen nothing yet) is never delayed
        sc = base(rng, [('upload', 1)], nmax=1, short_reads=True, maxsize=15)
        cfg = sc['config']
        thr = 16
        cfg['multipart_threshold'] = 64
        cfg['multipart_chunksize'] = 64
        cfg['max_bandwidth'] = rng.choice([8, 16, 64])
        main = sc['transfers'][0]
        # the limiter counts the amounts ASKED for: with 1-byte socket reads of
        # a body of at most 6 bytes (one more read finds EOF) the stream stays
        # below the threshold of 16 and is charged exactly once, when it is closed
        main['size'] = rng.randint(1, 6)
        main.pop('short_seekable', None)
        main['short_src'] = False
        sc['knobs']['sock_chunk'] = 1
        for sub in main['subs']:
            if sub.get('provide_size') is not None:
                sub['provide_size'] = main['size']
        for _ in range(rng.randint(1, 3)):
            st = gen_transfer(rng, cfg, [('upload', 2), ('download', 2)])
            st['size'] = rng.randint(3 * thr, 8 * thr)
            st['mgr'] = 1
            for sub in st['subs']:
                if sub.get('provide_size') is not None:
                    sub['provide_size'] = st['size']
            sc['transfers'].append(st)
        n = len(sc['transfers'])
        sc['knobs']['sibling'] = 'traffic'
        sc['knobs']['bw_threshold'] = thr
        sc['knobs']['latency'] = 'none'
        sc['knobs']['fs_latency'] = 'none'
        sc['knobs']['stalls'] = []
        sc['knobs']['pre_read'] = False
        sc['knobs']['io_chunk'] = rng.randint(4, 16)
        est = est_steps(sc['transfers'], cfg)
        sc['driver'] = [['submit', i] for i in range(1, n)] + \
            [['wait_step', rng.randint(0, est)], ['submit', 0]] + \
            [['result', i] for i in range(n)] + [['sibling_shutdown'], ['shutdown']]
        sc['strategy'] = gen_strategy(rng, est)
        sc['max_steps'] = 80 * est + 40000
        return sc
    if r0 < 0.37:
        # many bodies smaller than the limiter's batching threshold, one request
        # at a time: every one of them is charged only when it is closed, and
        # together they must still respect the limit
        mix = rng.choice([[('upload', 3), ('download', 1)], [('download', 3), ('upload', 1)]])
        sc = base(rng, mix, nmax=3, short_reads=True, maxsize=15)
        cfg = sc['config']
        thr = 16
        cfg['multipart_threshold'] = 64
        cfg['multipart_chunksize'] = 64
        cfg['max_request_concurrency'] = 1
        cfg['max_bandwidth'] = rng.choice([8, 16])
        # one read of a download asks for io_chunksize bytes: at or above the
        # threshold it is charged before it is made (as with the defaults, where
        # both are 256 KiB)
        cfg['io_chunksize'] = rng.choice([16, 16, 32])
        n = rng.randint(8, 12)
        while len(sc['transfers']) < n:
            sc['transfers'].append(gen_transfer(rng, cfg, mix))
        for t in sc['transfers']:
            t['size'] = rng.randint(thr // 2, thr - 1)
            for sub in t['subs']:
                if sub.get('provide_size') is not None:
                    sub['provide_size'] = t['size']
        sc['knobs']['bw_threshold'] = thr
        sc['knobs']['latency'] = 'none'
        sc['knobs']['fs_latency'] = 'none'
        sc['knobs']['stalls'] = []
        sc['knobs']['pre_read'] = False
        sc['knobs']['sign_read'] = rng.random() < 0.3
        sc['strategy'] = gen_strategy(rng, est_steps(sc['transfers'], cfg))
        sc['max_steps'] = 80 * est_steps(sc['transfers'], cfg) + 40000
        return sc
    sc = base(rng, [('upload', 4), ('download', 4)], nmax=3, short_reads=True, maxsize=36)
    cfg = sc['config']
    if rng.random() < 0.7:
        # transfers that are large against the limiter's batching threshold and
        # the read sizes, so that the burst allowance is small against the volume
        cfg['multipart_chunksize'] = rng.randint(20, 60)
        cfg['multipart_threshold'] = rng.randint(10, 120)
        cfg['io_chunksize'] = rng.randint(2, 4)
        sc['knobs']['sock_chunk'] = rng.randint(2, 4)
        sc['knobs']['sign_chunk'] = 1 << 20
        for t in sc['transfers']:
            t['size'] = rng.randint(60, 320)
            for sub in t['subs']:
                if sub.get('provide_size') is not None:
                    sub['provide_size'] = t['size']
        sc['config']['max_bandwidth'] = rng.choice([16, 64])
        sc['knobs']['bw_threshold'] = rng.choice([1, 2, 4])
        sc['strategy'] = gen_strategy(rng, est_steps(sc['transfers'], cfg))
        sc['max_steps'] = 80 * est_steps(sc['transfers'], cfg) + 40000
    else:
        sc['config']['max_bandwidth'] = rng.choice([8, 64, 1000])
        sc['knobs']['bw_threshold'] = rng.choice([1, 4, 16, 256 * 1024])
    sc['knobs']['latency'] = 'none'
    sc['knobs']['fs_latency'] = 'none'
    sc['knobs']['stalls'] = []
    sc['knobs']['pre_read'] = rng.random() < 0.2
    sc['knobs']['sign_read'] = rng.random() < 0.3
    r = rng.random()
    if r < 0.3:
        add_cancel_script(rng, sc)
    elif r < 0.5:
        i = rng.randrange(len(sc['transfers']))
        sc['faults'] += gen_fatal_fault(rng, i, sc['transfers'][i], sc['config'])
    elif r < 0.7:
        for i, t in enumerate(sc['transfers']):
            if t['type'] == 'upload':
                sc['faults'] += gen_rewinds(rng, i, t, sc['config'])
            else:
                sc['faults'] += gen_stream_retries(rng, i, t, sc['config'], 1)
    return sc


def io_pressure(rng):
    """Ranged downloads sharing a tiny IO queue, one of them failing in the
    middle, next to another failing transfer; shutdown while all are running."""
    sc = base(rng, [('download', 1)], nmax=2, tight=True, short_reads=True, maxsize=30)
    cfg = sc['config']
    cfg['max_io_queue_size'] = rng.choice([1, 1, 2])
    cfg['io_chunksize'] = rng.choice([1, 1, 2])
    cfg['multipart_chunksize'] = rng.randint(2, 5)
    cfg['multipart_threshold'] = rng.randint(1, 4)
    cfg['max_request_concurrency'] = rng.choice([2, 3])
    while len(sc['transfers']) < 2:
        sc['transfers'].append(gen_transfer(rng, cfg, [('download', 1)]))
    for t in sc['transfers']:
        t['size'] = max(t['size'], cfg['multipart_threshold'] + cfg['multipart_chunksize'] * 2)
        t['dst'] = rng.choice(['path', 'seekable', 'nonseekable'])
        if t['dst'] != 'path':
            t.pop('prev', None)
        for sub in t['subs']:
            if sub.get('provide_size') is not None:
                sub['provide_size'] = t['size']
    sc['transfers'].append({'type': 'delete', 'size': 0, 'subs': [{}]})
    n = len(sc['transfers'])
    v = rng.randrange(n - 1)
    rngs = download_ranges(sc['transfers'][v]['size'], cfg)
    r = rng.choice(rngs)
    kind = rng.choice(['stream', 's3'])
    if kind == 'stream':
        sc['faults'].append({'site': 'stream', 'key': 'o%d' % v, 'range': r, 'attempt': 0,
                             'at': rng.randint(0, 2), 'exc': 'client'})
    else:
        sc['faults'].append({'site': 's3', 'op': 'get_object', 'key': 'o%d' % v, 'range': r,
                             'when': 'before', 'exc': 'client'})
    if rng.random() < 0.7:
        sc['faults'].append({'site': 's3', 'op': 'delete_object', 'key': 'del%d' % (n - 1),
                             'when': 'before', 'exc': 'client'})
    sc['knobs']['latency'] = wchoice(rng, [('none', 2), ('random', 3), ('slow_first', 1)])
    sc['strategy'] = gen_strategy(rng, est_steps(sc['transfers'], cfg))
    sc['max_steps'] = 60 * est_steps(sc['transfers'], cfg) + 20000
    order = list(range(n))
    rng.shuffle(order)
    script = [['submit', i] for i in order]
    if rng.random() < 0.7:
        script += [['shutdown']] + [['result', i] for i in range(n)]
    else:
        script = [['use_with']] + script
    sc['driver'] = script
    return sc


def bandwidth_isolation(rng):
    """Transfers sharing one manager's bandwidth limiter: one with several
    parts throttled at once is cancelled or fails, the others - and a fresh one
    afterwards - must neither fail nor be affected."""
    sc = base(rng, [('upload', 2), ('download', 2)], nmax=2, short_reads=True, maxsize=30)
    cfg = sc['config']
    cfg['max_bandwidth'] = rng.choice([8, 16, 32])
    cfg['max_request_concurrency'] = rng.choice([3, 4])
    cfg['multipart_chunksize'] = rng.randint(6, 12)
    cfg['multipart_threshold'] = rng.randint(6, 12)
    cfg['io_chunksize'] = rng.randint(2, 4)
    cfg['max_request_queue_size'] = 1000
    cfg['max_in_memory_upload_chunks'] = 5
    cfg['max_in_memory_download_chunks'] = 5
    sc['knobs']['bw_threshold'] = rng.choice([1, 2, 4])
    sc['knobs']['sock_chunk'] = rng.randint(2, 4)
    sc['knobs']['sign_chunk'] = 1 << 20
    sc['knobs']['latency'] = 'none'
    sc['knobs']['fs_latency'] = 'none'
    sc['knobs']['stalls'] = []
    sc['knobs']['pre_read'] = False
    while len(sc['transfers']) < 2:
        sc['transfers'].append(gen_transfer(rng, cfg, [('upload', 2), ('download', 2)]))
    for k, t in enumerate(sc['transfers']):
        parts = rng.randint(3, 5) if k == 0 else rng.randint(1, 3)
        t['size'] = cfg['multipart_chunksize'] * parts + rng.randint(0, 3)
        for sub in t['subs']:
            if sub.get('provide_size') is not None:
                sub['provide_size'] = t['size']
    n = len(sc['transfers'])
    est = est_steps(sc['transfers'], cfg)
    script = [['submit', i] for i in range(n)]
    if rng.random() < 0.7:
        script += [['wait_step', rng.randint(est // 8, est)], ['cancel', 0, rng.random() < 0.5]]
    else:
        sc['faults'] += gen_fatal_fault(rng, 0, sc['transfers'][0], cfg, ['s3', 'stream_fatal'])
        _dedupe_stream(sc)
    script += [['result', i] for i in range(n)]
    ft = gen_transfer(rng, cfg, [('upload', 2), ('download', 1)])
    ft['size'] = rng.randint(1, 3 * cfg['multipart_chunksize'])
    for sub in ft['subs']:
        if sub.get('provide_size') is not None:
            sub['provide_size'] = ft['size']
    script += [['fresh', ft], ['shutdown']]
    sc['driver'] = script
    sc['strategy'] = gen_strategy(rng, est)
    sc['max_steps'] = 80 * est + 40000
    return sc


def gen_C18(rng):
    r0 = rng.random()
    if r0 < 0.15:
        return io_pressure(rng)
    if r0 > 0.88:
        return bandwidth_isolation(rng)
    if r0 < 0.35:
        # stream transfers sharing the in-memory windows (parts finishing out of
        # order, one transfer possibly failing or cancelled), then a fresh
        # transfer of the same kind: the shared permits must all be back
        kind = rng.choice(['down', 'down', 'up'])
        sc = contention(rng, kind)
        sc['knobs']['latency'] = wchoice(rng, [('random', 4), ('slow_first', 3), ('none', 1)])
        cfg = sc['config']
        n = len(sc['transfers'])
        script = [['submit', i] for i in range(n)]
        r = rng.random()
        if r < 0.25:
            i = rng.randrange(n)
            sc['faults'] += gen_fatal_fault(rng, i, sc['transfers'][i], cfg)
            _dedupe_stream(sc)
        elif r < 0.45:
            script += [['wait_step', rng.randint(0, est_steps(sc['transfers'], cfg))],
                       ['cancel', rng.randrange(n), True]]
        script += [['result', i] for i in range(n)]
        for _ in range(rng.choice([1, 1, 2])):
            ft = gen_transfer(rng, cfg, [('download', 1)] if kind == 'down' else [('upload', 1)])
            ft['size'] = max(ft['size'], cfg['multipart_threshold'] +
                             cfg['multipart_chunksize'] * rng.randint(1, 4))
            for sub in ft['subs']:
                if sub.get('provide_size') is not None:
                    sub['provide_size'] = ft['size']
            if kind == 'down':
                ft['dst'] = 'nonseekable'
                ft.pop('prev', None)
            elif ft.get('src') == 'path':
                ft['src'] = rng.choice(['seekable', 'nonseekable'])
                ft['offset'] = 0
            script.append(['fresh', ft])
        script.append(['shutdown'])
        sc['driver'] = script
        return sc
    sc = base(rng, ALL_TYPES, nmax=4, tight=rng.random() < 0.4, short_reads=True,
              maxsize=28)
    while len(sc['transfers']) < 2:
        sc['transfers'].append(gen_transfer(rng, sc['config'], ALL_TYPES))
    n = len(sc['transfers'])
    cfg = sc['config']
    nf = rng.randint(0, min(2, n))
    for i in rng.sample(range(n), nf):
        sc['faults'] += gen_fatal_fault(rng, i, sc['transfers'][i], cfg)
    _dedupe_stream(sc)
    est = est_steps(sc['transfers'], cfg)
    script = [['submit', i] for i in range(n)]
    r = rng.random()
    if r < 0.3:
        victim = rng.randrange(n)
        script += [['wait_step', rng.randint(0, est)], ['cancel', victim, True]]
    mode = rng.random()
    if mode < 0.45:
        script += [['result', i] for i in range(n)]
        script.append(['fresh', gen_transfer(rng, cfg, ALL_TYPES)])
        script.append(['shutdown'])
    elif mode < 0.8:
        # shutdown while transfers are still running
        script.append(['shutdown'])
        script += [['result', i] for i in range(n)]
    else:
        script = [['use_with']] + script
    sc['driver'] = script
    if rng.random() < 0.06 and sc.get('driver'):
        # a call the manager rejects somewhere in between: it must leave
        # nothing behind that a later shutdown waits for
        script = sc['driver']
        pos = rng.randint(0, max(0, len(script) - 1))
        sc['driver'] = script[:pos] + [['bad_call', rng.choice(['upload', 'download', 'copy',
                                                                 'delete'])]] + script[pos:]
    return sc


def gen_C17(rng):
    """End-to-end companion of the coordinator engine: everything on the
    caller's thread (NonThreadedExecutor), a stream upload in several parts, a
    request that fails and - later, inside the same submission - a Ctrl-C or a
    second failure while the source is read.  The failure recorded first is
    the one result() raises."""
    sc = base(rng, [('upload', 1)], nmax=1, maxsize=30)
    cfg = sc['config']
    t = sc['transfers'][0]
    t['src'] = rng.choice(['nonseekable', 'seekable'])
    t['offset'] = 0
    t.pop('short_seekable', None)
    t['short_src'] = False
    cfg['multipart_chunksize'] = rng.randint(2, 5)
    cfg['multipart_threshold'] = rng.randint(2, 6)
    t['size'] = cfg['multipart_threshold'] + cfg['multipart_chunksize'] * rng.randint(3, 5)
    for sub in t['subs']:
        if sub.get('provide_size') is not None:
            sub['provide_size'] = t['size']
    sc['knobs']['serial'] = True
    sc['knobs']['line_preempt'] = False
    sc['knobs']['adjuster'] = {'min_size': 1, 'max_size': 1 << 40, 'max_parts': 10000}
    sc['faults'] = [
        {'site': 's3', 'op': 'upload_part', 'key': 'k0', 'part': rng.randint(1, 2),
         'when': rng.choice(['before', 'after']), 'exc': rng.choice(['client', 'value', 'eio'])},
        {'site': 'src', 't': 0, 'nth': rng.randint(2, 6),
         'exc': rng.choice(['kbi', 'kbi', 'oserror'])}]
    return sc


GENERATORS = {
    'C01': gen_C01, 'C02': gen_C02, 'C03': gen_C03, 'C04': gen_C04,
    'C05': gen_C05, 'C06': gen_C06, 'C07': gen_C07, 'C08': gen_C08,
    'C09': gen_C09, 'C10': gen_C10, 'C11': gen_C11, 'C18': gen_C18,
    'C13': gen_C13, 'C16': gen_C16, 'C17': gen_C17,
}


def _long_names(rng, sc):
    """Some file destinations get a base name at or near NAME_MAX (255): the
    temporary name must still differ from the destination."""
    for i, t in enumerate(sc['transfers']):
        if t.get('type') == 'download' and t.get('dst') == 'path' and rng.random() < 0.08:
            L = rng.choice([246, 247, 250, 254, 255, 255])
            base = 'down%d_' % i
            long = '/d/' + base + 'n' * (L - len(base))
            t['path_override'] = long
            for f in sc['faults']:
                for k in ('dest', 'path'):
                    if f.get(k) == '/d/down%d' % i:
                        f[k] = long


def generate(prop, seed):
    rng = random.Random(seed)
    sc = GENERATORS[prop](rng)
    _long_names(rng, sc)
    sc['prop'] = prop
    sc['seed'] = seed
    sc['sched_seed'] = rng.randrange(1 << 62)
    return sc
