"""C16 focused engine: the real DownloadNonSeekableOutputManager + DeferQueue +
single-thread IO executor, fed by simulated part threads with exactly the
delivery histories the download loop can produce: every attempt of a part
delivers consecutive chunks from the part's first byte, attempts are cut at
different places and may stop anywhere, parts interleave arbitrarily."""
import random

from . import kernel, seams, simstd
from .gen import gen_strategy
from .world import pattern

NAME = 'defer'
PROPS = ('C16',)
REAL = ['s3transfer.download.DeferQueue',
        's3transfer.download.DownloadNonSeekableOutputManager',
        's3transfer.download.ImmediatelyWriteIOGetObjectTask._handle_io',
        's3transfer.download.IOStreamingWriteTask', 's3transfer.futures.BoundedExecutor',
        's3transfer.futures.TransferCoordinator',
        'stdlib ThreadPoolExecutor source (on simulated _thread)']
STUB = ['OS scheduler (kernel)', 'the GetObject loop: seeded delivery histories',
        'user stream (recording, write-only)']
RULE = ('one evaluation = one seeded delivery history (1-4 parts, 1-4 attempts per part, '
        'per-attempt chunk cuts) run under a seeded schedule; distinct = distinct trace '
        'digest; non-trivial = some re-delivery overlapped already-delivered bytes with '
        'different chunk boundaries OR >=2 part threads interleaved')
ASSUMPTIONS = ['every part\'s last attempt delivers the whole part (the successful-download '
               'case); delivery order across parts is arbitrary']


def _cuts(rng, n, maxcut):
    out = []
    left = n
    while left > 0:
        c = rng.randint(1, min(maxcut, left))
        out.append(c)
        left -= c
    return out


def generate(prop, seed):
    rng = random.Random(seed)
    mode = 'immediate' if rng.random() < 0.25 else 'queued'
    nparts = 1 if mode == 'immediate' else rng.choice([1, 2, 2, 3, 3, 4])
    chunk = rng.randint(1, 9)
    last = rng.randint(1, chunk)
    size = chunk * (nparts - 1) + last
    io_chunk = rng.randint(1, 5)
    parts = []
    for p in range(nparts):
        start = p * chunk
        plen = chunk if p < nparts - 1 else last
        attempts = []
        for a in range(rng.choice([1, 1, 2, 2, 3, 4]) - 1):
            stop = rng.randint(0, plen)     # attempt dies after `stop` bytes
            attempts.append(_cuts(rng, stop, io_chunk))
        attempts.append(_cuts(rng, plen, io_chunk))
        parts.append({'start': start, 'len': plen, 'attempts': attempts})
    if rng.random() < 0.1:
        # the empty object: one empty delivery
        size = 0
        parts = [{'start': 0, 'len': 0, 'attempts': [[0]]}]
    return {'mode': mode, 'size': size, 'parts': parts,
            'io_queue': rng.choice([1, 2, 1000]),
            'strategy': gen_strategy(rng, 150), 'sched_seed': rng.randrange(1 << 62),
            'seed': seed, 'prop': prop}


class _Dest:
    def __init__(self, sim):
        self.sim = sim
        self.chunks = []

    def write(self, data):
        self.sim.point('dst.write')
        self.chunks.append((self.sim.stamp(), self.sim.current.tid, bytes(data)))


def execute(sc, choices=None, lenient=False):
    seams.install()
    from s3transfer.download import (
        DownloadNonSeekableOutputManager,
        ImmediatelyWriteIOGetObjectTask,
    )
    from s3transfer.futures import BoundedExecutor, TransferCoordinator
    from s3transfer.utils import OSUtils
    th = simstd.simthreading
    if choices is not None:
        chooser = kernel.ReplayChooser(choices, lenient=lenient)
    else:
        chooser = kernel.RandomChooser(sc['sched_seed'], tuple(sc['strategy']))
    sim = kernel.Sim(chooser, max_steps=40000)
    data = pattern(7, sc['size'])
    dest = _Dest(sim)
    violations = []
    info = {'overlap': 0, 'deliveries': 0}
    errors = []

    def main():
        coord = TransferCoordinator(transfer_id=0)
        io = BoundedExecutor(sc['io_queue'], 1,
                             executor_cls=simstd.sim_cf.ThreadPoolExecutor)
        mgr = DownloadNonSeekableOutputManager(OSUtils(), coord, io)
        task = ImmediatelyWriteIOGetObjectTask(coord)

        def part_thread(part):
            high = part['start']
            try:
                for cuts in part['attempts']:
                    off = part['start']
                    for c in cuts:
                        chunk = data[off:off + c]
                        if off < high and off + c > high:
                            info['overlap'] += 1
                        info['deliveries'] += 1
                        sim.point('deliver')
                        if sc['mode'] == 'immediate':
                            task._handle_io(mgr, dest, chunk, off)
                        else:
                            mgr.queue_file_io_task(dest, chunk, off)
                        off += c
                        high = max(high, off)
            except kernel.SimAbort:
                raise
            except BaseException as e:   # noqa
                import traceback
                errors.append(traceback.format_exc())

        threads = [th.Thread(target=part_thread, args=(p,)) for p in sc['parts']]
        for t in threads:
            t._sim_role = 'part'
            t.start()
        for t in threads:
            t.join()
        io.shutdown()
        if coord.exception is not None:
            errors.append('io task failed: %r' % (coord.exception,))

    sim.run(main)
    simstd.reset_between_runs()
    from .world import collect_between_runs
    collect_between_runs()
    harness = []
    f = sim.failure
    if f is not None:
        if f[0] in ('deadlock', 'step-budget'):
            violations.append(['C16', f[0], f[1], {}])
        else:
            harness.append((f[0], f[1]))
    for e in sim.thread_errors:
        harness.append(('thread-exception', e[2]))
    for e in errors:
        harness.append(('delivery-exception', e[-1500:]))
    got = b''.join(c[2] for c in dest.chunks)
    if not harness and f is None:
        if not data.startswith(got):
            violations.append(['C16', 'stream-order',
                               'writes %r are not a prefix of the object %r (each byte once, in order)'
                               % ([c[2] for c in dest.chunks][:12], data), {}])
        elif got != data:
            violations.append(['C16', 'data-withheld',
                               'after every part was delivered completely only %d of %d bytes '
                               'were written: %r' % (len(got), len(data), got), {}])
        tids = {c[1] for c in dest.chunks}
        if sc['mode'] == 'queued' and len(tids) > 1:
            violations.append(['C16', 'multiple-writers',
                               'stream written by threads %r' % sorted(tids), {}])
    nontrivial = info['overlap'] > 0 or (len(sc['parts']) >= 2 and sim.multi_points >= 1)
    return {
        'steps': sim.steps, 'switches': sim.switches, 'digest': sim.digest,
        'multi_points': sim.multi_points, 'sim_time': 0.0,
        'violations': violations, 'harness': harness,
        'fault_kinds': {'overlapping-redelivery': [info['overlap'], info['overlap']],
                        'retry-attempts': [sum(len(p['attempts']) - 1 for p in sc['parts'])] * 2},
        'probes': {'deliveries': info['deliveries'], 'writes': len(dest.chunks)},
        'nontrivial': nontrivial, 'states': [], 'trace': sim.trace,
        'strategy': sc['strategy'][0],
    }


def sample_of(sc, res):
    return {'mode': sc['mode'], 'size': sc['size'], 'parts': sc['parts'],
            'strategy': sc['strategy'], 'first_choices': res['trace'][:40]}


def shrink_candidates(sc):
    import copy
    for i, p in enumerate(sc['parts']):
        for a in range(len(p['attempts']) - 1):
            c = copy.deepcopy(sc)
            del c['parts'][i]['attempts'][a]
            yield c
    if len(sc['parts']) > 1:
        # drop the last part (keeps the tiling from 0)
        c = copy.deepcopy(sc)
        last = c['parts'].pop()
        c['size'] -= last['len']
        yield c
    for i, p in enumerate(sc['parts']):
        for a, cuts in enumerate(p['attempts']):
            if len(cuts) > 1:
                c = copy.deepcopy(sc)
                cc = c['parts'][i]['attempts'][a]
                cc[0:2] = [cc[0] + cc[1]]
                yield c
