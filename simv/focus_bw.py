"""C13 focused engine: the real LeakyBucket / BandwidthLimiter /
BandwidthLimitedStream, built exactly as the TransferManager builds them
(default TimeUtils; the module's `time` is the simulator's virtual clock), used
by 1-8 simulated stream threads with seeded read sizes, think times, late
wake-ups, transferring toggles and abandonment.  Virtual time makes minutes of
throttled traffic cost microseconds."""
import random

from . import kernel, seams, simstd
from .gen import gen_strategy

NAME = 'bw'
PROPS = ('C13',)
REAL = ['s3transfer.bandwidth.LeakyBucket', 's3transfer.bandwidth.BandwidthLimiter',
        's3transfer.bandwidth.BandwidthLimitedStream',
        's3transfer.bandwidth.ConsumptionScheduler',
        's3transfer.bandwidth.BandwidthRateTracker', 's3transfer.bandwidth.TimeUtils',
        's3transfer.futures.TransferCoordinator']
STUB = ['clock and sleep (kernel virtual time)', 'OS scheduler (kernel)',
        'the wrapped file objects and the transfer loops: seeded read programs']
RULE = ('one evaluation = one seeded traffic pattern (1-8 streams, each a program of '
        '(think time, read size) steps, with late wake-ups, toggles and abandonment) run '
        'in virtual time under a seeded schedule; distinct = distinct trace digest; '
        'non-trivial = >=1 read was throttled (slept) AND (>=2 streams OR an abandonment '
        'happened), or a paced run of >=10 consumes')
ASSUMPTIONS = ['computation takes no virtual time: the clock only advances in sleeps',
               'rate windows are evaluated between read-return events']

EPS = 1e-6


def generate(prop, seed):
    rng = random.Random(seed)
    mode = rng.choice(['saturated', 'saturated', 'mixed', 'mixed', 'paced', 'phase',
                       'abandon', 'abandon', 'recover'])
    R = rng.choice([1000.0, 4096.0, 65536.0, 1e6])
    thr = rng.choice([1, 64, 1024, 4096])
    n = {'paced': rng.choice([1, 1, 2, 3])}.get(mode, rng.choice([1, 2, 2, 3, 4, 6, 8]))
    streams = []
    nreads = rng.randint(3, 14)
    stall = None
    if mode == 'paced' and rng.random() < 0.4:
        # a stalled thread (fault): equal amounts in slots G = 4 amount/R apart;
        # the thread making the consume of one slot is stalled, at its first
        # scheduling point inside LeakyBucket.consume, from its slot until the
        # middle of the gap after the NEXT slot (another stream's), so every two
        # consumes are still >= 2 amount/R apart and nothing may be delayed
        n = rng.choice([2, 2, 3])
        amt = thr * rng.randint(1, 3)
        G = 4.0 * amt / R
        slots = [((i + 1) * G, amt) for i in range(nreads * n)]
        k = rng.randrange(len(slots) - 1)
        stall = {'slot': k, 'duration': 1.5 * G}
    elif mode == 'paced':
        # global slot schedule: consecutive consumes (by anybody) are at least
        # amount/R * (1 + margin) apart, so demand stays below the limit
        t = 0.0
        slots = []
        for i in range(nreads * n):
            amt = thr * rng.randint(1, 3)
            t += amt / R * (1.0 + rng.choice([0.01, 0.05, 0.3, 2.0]))
            slots.append((t, amt))
    if mode == 'paced':
        for si in range(n):
            prog = [['at', tm, amt] for k, (tm, amt) in enumerate(slots) if k % n == si]
            streams.append({'prog': prog, 'toggle': None})
    else:
        for si in range(n):
            prog = []
            kind = rng.choice(['sat', 'sat', 'paced', 'bursty']) if mode == 'mixed' else 'sat'
            big = thr * rng.choice([1, 2, 4, 16])
            if mode == 'phase' and si > 0:
                big = max(1, thr // rng.choice([1, 2, 8]))
                kind = 'phase'
            for _ in range(rng.randint(3, nreads)):
                amt = rng.choice([big, big, max(1, big // 2), big + 1, rng.randint(1, 2 * big)])
                if kind == 'sat':
                    think = 0.0
                elif kind == 'paced':
                    think = amt / R * rng.choice([0.5, 1.0, 1.1, 3.0])
                elif kind == 'phase':
                    think = rng.choice([0.0, 1e-6, amt / R])
                else:
                    think = rng.choice([0.0, 0.0, 0.0, 5 * big / R])
                prog.append(['read', think, amt])
            st = {'prog': prog, 'toggle': None}
            if rng.random() < 0.15:
                st['toggle'] = rng.randrange(len(prog))   # untracked from this read on
            if rng.random() < 0.15:
                st['close_after'] = True
            streams.append(st)
    if mode == 'recover':
        # after arbitrary contention and a long idle gap, one stream whose
        # demand is a tenth of the limit: the limiter's memory of the past
        # decays by 5x per consume, so its last reads must not be delayed
        amt = thr * rng.randint(1, 3)
        gap = 50.0 * max(len(s_['prog']) for s_ in streams) * 16 * thr / R + 10.0
        streams.append({'prog': [['read', gap, amt]] +
                        [['read', 10.0 * amt / R, amt] for _ in range(39)],
                        'toggle': None, 'recover': True})
    if mode == 'abandon':
        k = rng.randint(1, max(1, n // 2))
        for si in rng.sample(range(n), k):
            streams[si]['abandon'] = {'sleep_no': rng.randint(0, 2),
                                      'frac': rng.choice([0.0, 0.25, 0.5, 0.99, 1.0])}
    # streams may be the concurrent parts of ONE transfer (they share its
    # coordinator, as the parts of a multipart upload / ranged download do)
    groups = list(range(len(streams)))
    if mode in ('saturated', 'mixed', 'phase', 'recover') and len(streams) >= 2 \
            and rng.random() < 0.4:
        k = rng.randint(1, max(1, len(streams) // 2))
        groups = [rng.randrange(k) for _ in streams]
        if mode == 'recover':
            groups[-1] = k
    return {'groups': groups, 'mode': mode, 'R': R, 'threshold': thr, 'streams': streams,
            'stall': stall,
            'overshoot': 0.0 if mode == 'paced' else rng.choice([0.0, 0.0, 0.1, 1.0, 2.0]),
            'epoch': 1000.0 if mode == 'paced' else rng.choice([1000.0, 0.0, 1.7e9]),
            'strategy': gen_strategy(rng, 200), 'sched_seed': rng.randrange(1 << 62),
            'seed': seed, 'prop': prop}


class _Src:
    def read(self, n):
        return b'x' * n

    def close(self):
        pass


class _Abandoned(Exception):
    pass


def execute(sc, choices=None, lenient=False):
    seams.install()
    import s3transfer.bandwidth as bw
    from s3transfer.futures import TransferCoordinator
    th = simstd.simthreading
    if choices is not None:
        chooser = kernel.ReplayChooser(choices, lenient=lenient)
    else:
        chooser = kernel.RandomChooser(sc['sched_seed'], tuple(sc['strategy']))
    sim = kernel.Sim(chooser, max_steps=200000, epoch=sc.get('epoch', 1000.0))
    R = sc['R']
    thr = sc['threshold']
    violations = []
    deliveries = []        # (time, stamp, stream, bytes)
    info = {'sleeps': 0, 'abandons': 0, 'consumes': 0, 'scheduled': 0, 'toggles': 0,
            'stalls': 0}
    ledger = {}            # token -> (amt, stream index)
    tok_stream = {}
    ctx = {}               # tid -> {'stream': i, 'in_read': bool, 'sleeps_this_read': n}
    over = sc.get('overshoot', 0.0)
    coords = []
    streams_obj = []
    active_from = {}
    active_to = {}
    abandon_stamp = {}
    reading = {}
    recover_sleeps = []

    if over:
        def overshoot(d):
            k = sim.choose(3, 'late')
            return d * over * (0, 0.5, 1.0)[k]
        sim.sleep_overshoot = None   # installed per in-read sleep below

    def main():
        orig_defaults = bw.BandwidthLimitedStream.__init__.__defaults__
        bw.BandwidthLimitedStream.__init__.__defaults__ = (orig_defaults[0], thr)
        try:
            bucket = bw.LeakyBucket(R)
            limiter = bw.BandwidthLimiter(bucket)
            sched = bucket._consumption_scheduler
            real_schedule = sched.schedule_consumption
            real_process = sched.process_scheduled_consumption

            def schedule(amt, token, time_to_consume, *a, **k):
                w = real_schedule(amt, token, time_to_consume, *a, **k)
                info['scheduled'] += 1
                # a waiting read counts until the library had every chance to
                # withdraw it: while its transfer is healthy, or while the
                # read() that scheduled it is still in progress
                live = 0.0
                for tk, (a, si) in ledger.items():
                    if coords[si].exception is None or reading.get(si):
                        live += a
                bound = (live + amt) / R
                if w > bound * (1 + 1e-9) + EPS:
                    stale = [si for tk, (a, si) in ledger.items()
                             if coords[si].exception is not None and not reading.get(si)]
                    violations.append([
                        'C13', 'wait-too-long',
                        'a read of %d bytes was told to wait %.6f s; the limit needs only '
                        '%.6f s for the %d live waiting read(s) plus its own%s'
                        % (amt, w, bound, sum(1 for tk, (a, si) in ledger.items()
                                               if coords[si].exception is None),
                           ('; %d abandoned read(s) still occupy the schedule' % len(stale))
                           if stale else ''),
                        {'variant': 'abandoned-waiter' if stale else 'other'}])
                ledger[token] = (amt, tok_stream.get(id(token), -1))
                return w

            def process(token, *a, **k):
                ledger.pop(token, None)
                return real_process(token, *a, **k)
            sched.schedule_consumption = schedule
            sched.process_scheduled_consumption = process
            real_consume = bucket.consume

            def consume(amt, token, *a, **k):
                c = ctx.get(sim.current.tid)
                if c is not None:
                    c['consume_begin'] = sim.stamp()
                info['consumes'] += 1
                if c is not None and c.get('stall'):
                    # fault: this thread is descheduled at its first scheduling
                    # point inside consume() while time and the others go on
                    sim.stall_at_next_point(c.pop('stall'))
                    info['stalls'] += 1
                return real_consume(amt, token, *a, **k)
            bucket.consume = consume

            def run_stream(si, st):
                coord = coords[si]
                stream = streams_obj[si]
                tid = sim.current.tid
                c = ctx[tid] = {'stream': si, 'in_read': False, 'sleeps': 0,
                                'sleep_no': 0}
                t0 = sim.now
                for k, step in enumerate(st['prog']):
                    if st.get('toggle') is not None and k == st['toggle']:
                        stream.signal_not_transferring()
                        info['toggles'] += 1
                    if step[0] == 'at':
                        wait = (t0 + step[1]) - sim.now
                        if wait > 0:
                            real_sleep(wait)
                        amt = step[2]
                        stl = sc.get('stall')
                        if stl and k * len(sc['streams']) + si == stl['slot']:
                            c['stall'] = stl['duration']
                    else:
                        if step[1] > 0:
                            sim.sleep(step[1])
                        amt = step[2]
                    c['in_read'] = True
                    reading[si] = True
                    c['sleeps'] = 0
                    c['abandoned_at'] = None
                    c['failed_at_wake'] = False
                    active_from.setdefault(si, sim.now)
                    inf_before = st.get('recover') and k == 0 and getattr(
                        getattr(bucket, '_rate_tracker', None), '_current_rate', None) \
                        == float('inf')
                    try:
                        data = stream.read(amt)
                        deliveries.append((sim.now, sim.stamp(), si, len(data),
                                           stream._bandwidth_limiting_enabled))
                    except kernel.SimAbort:
                        raise
                    except BaseException as e:   # noqa
                        c['in_read'] = False
                        reading[si] = False
                        active_to[si] = sim.now
                        if e is not coord.exception or coord.exception is None:
                            violations.append(['C13', 'wrong-exception',
                                               'stream %d read raised %r, transfer error is %r'
                                               % (si, e, coord.exception), {}])
                        return
                    finally:
                        c['in_read'] = False
                        reading[si] = False
                    if c.get('failed_at_wake'):
                        # "a read of a failed or cancelled transfer raises that
                        # transfer's error instead of waiting on": the error was
                        # there when the wait ended, the read came back with data
                        violations.append(['C13', 'read-returned-after-failure',
                                           'stream %d: its transfer had failed (%r) by the time '
                                           'its wait ended, yet the read returned %d bytes instead '
                                           'of raising the error' % (si, coord.exception, len(data)),
                                           {}])
                    if st.get('recover'):
                        recover_sleeps.append(c['sleeps'])
                        if inf_before and c['sleeps'] and coord.exception is None:
                            # two consumptions at one instant left an infinite
                            # rate behind: it says nothing about the history, so
                            # a read far below the limit after a long idle gap
                            # is admitted at once
                            violations.append(['C13', 'delayed-below-limit',
                                               'after a long idle gap a read of a tenth of the '
                                               'limit was delayed because the tracked rate was '
                                               'still infinite (two earlier consumptions at one '
                                               'instant)', {'variant': 'infinite-rate'}])
                    if c['sleeps'] > 1:
                        violations.append(['C13', 'multiple-waits',
                                           'one read of stream %d slept %d times'
                                           % (si, c['sleeps']), {}])
                    active_to[si] = sim.now
                    if coord.exception is not None:
                        # the transfer loop stops using a failed transfer's stream
                        return
                if st.get('close_after'):
                    # close() charges the bytes of a small body: it may wait
                    # exactly like a read
                    c['in_read'] = True
                    reading[si] = True
                    c['sleeps'] = 0
                    try:
                        stream.close()
                    except kernel.SimAbort:
                        raise
                    except BaseException as e:   # noqa
                        if e is not coord.exception or coord.exception is None:
                            violations.append(['C13', 'wrong-exception',
                                               'stream %d close raised %r, transfer error is %r'
                                               % (si, e, coord.exception), {}])
                    finally:
                        c['in_read'] = False
                        reading[si] = False
                active_to[si] = sim.now

            # per-read sleep observation through the kernel
            real_sleep = sim.sleep

            def sleep(d):
                c = ctx.get(sim.current.tid)
                if c is not None and c['in_read']:
                    si = c['stream']
                    c['sleeps'] += 1
                    info['sleeps'] += 1
                    ab_stamp = abandon_stamp.get(si)
                    if ab_stamp is not None and sim.stamp() > ab_stamp:
                        # The failure may land between the stream's look at the
                        # transfer's exception and the wait that follows, so ONE
                        # wait may still start after it (wherever the library has
                        # scheduling points in between); a second one means the
                        # stream keeps waiting instead of raising the error
                        c['waits_after_failure'] = c.get('waits_after_failure', 0) + 1
                        if c['waits_after_failure'] >= 2:
                            violations.append(['C13', 'waits-after-failure',
                                               'stream %d started a second wait (%.6f s) after its '
                                               'transfer had failed instead of raising the error'
                                               % (si, d), {}])
                    ab = sc['streams'][si].get('abandon')
                    if ab is not None and c['sleep_no'] == ab['sleep_no'] and \
                            coords[si].exception is None:
                        frac = ab['frac']
                        exc = _Abandoned('stream %d' % si)

                        def killer(delay=d * frac, coord=coords[si], exc=exc, si=si):
                            if delay > 0:
                                real_sleep(delay)
                            coord.set_exception(exc)
                            abandon_stamp[si] = sim.stamp()
                            info['abandons'] += 1
                        kt = th.Thread(target=killer)
                        kt._sim_role = 'killer'
                        kt.start()
                        helpers.append(kt)
                    c['sleep_no'] += 1
                    if over:
                        k = sim.choose(3, 'late')
                        d = d + d * over * (0, 0.5, 1.0)[k]
                    try:
                        return real_sleep(d)
                    finally:
                        # the transfer failed / was cancelled while this read waited
                        if coords[si].exception is not None:
                            c['failed_at_wake'] = True
                return real_sleep(d)
            sim.sleep = sleep

            helpers = []
            groups = sc.get('groups') or list(range(len(sc['streams'])))
            by_group = {}
            for si, st in enumerate(sc['streams']):
                g = groups[si]
                if g not in by_group:
                    by_group[g] = TransferCoordinator(transfer_id=g)
                coord = by_group[g]
                coords.append(coord)
                s = limiter.get_bandwith_limited_stream(_Src(), coord)
                streams_obj.append(s)
                tok_stream[id(s._request_token)] = si
            threads = []
            for si, st in enumerate(sc['streams']):
                t = th.Thread(target=run_stream, args=(si, st))
                t._sim_role = 'stream'
                threads.append(t)
            for t in threads:
                t.start()
            for t in threads:
                t.join()
            for t in helpers:
                t.join()
        finally:
            bw.BandwidthLimitedStream.__init__.__defaults__ = orig_defaults

    sim.run(main)
    simstd.reset_between_runs()
    from .world import collect_between_runs
    collect_between_runs()
    harness = []
    f = sim.failure
    if f is not None:
        if f[0] in ('deadlock', 'step-budget'):
            violations.append(['C13', f[0], f[1], {}])
        else:
            harness.append((f[0], f[1]))
    for e in sim.thread_errors:
        harness.append(('thread-exception', e[2] + e[3][-800:]))

    # (iii) demand below the limit is never delayed
    if sc['mode'] == 'paced' and info['sleeps'] and not harness:
        violations.append(['C13', 'delayed-below-limit',
                           'paced traffic (every consume at least amount/R after the previous '
                           'one) was delayed by %d wait(s)' % info['sleeps'], {}])
    if sc['mode'] == 'recover' and len(recover_sleeps) >= 40 and not harness and f is None:
        late = sum(recover_sleeps[-5:])
        if late:
            violations.append(['C13', 'delayed-below-limit',
                               'after an idle gap a single stream asking for a tenth of the limit '
                               'is still delayed on %d of its last 5 reads (36th-40th): the '
                               'limiter never recovers' % late, {'variant': 'no-recovery'}])
    # (iv) rate over every window between two delivery events
    ev = sorted((d[0], d[1], d[3], d[2]) for d in deliveries if d[4])
    worst = None
    if ev and not harness and f is None:
        maxread = {}
        for (tm, stp, nbytes, si) in ev:
            maxread[si] = max(maxread.get(si, 0), nbytes)
        all_sat = sc['mode'] == 'saturated' and not sc.get('overshoot')
        n = len(ev)
        for i in range(n):
            tot = 0
            act = set()
            for j in range(i, n):
                tot += ev[j][2]
                act.add(ev[j][3])
                T = ev[j][0] - ev[i][0]
                burst = 3 * sum(thr + maxread[s] for s in act)
                lim = 1.25 * R * T + burst
                if tot > lim * (1 + 1e-9):
                    exc = tot - lim
                    if worst is None or exc > worst[0]:
                        worst = (exc, i, j, tot, T, burst, len(act))
        if worst is not None:
            exc, i, j, tot, T, burst, nact = worst
            violations.append(['C13', 'rate-exceeded',
                               '%d bytes delivered in a window of %.6f s by %d stream(s): more than '
                               '1.25 x %.0f x T + burst(%d) = %.1f'
                               % (tot, T, nact, R, burst, 1.25 * R * T + burst), {}])
    nthrottled = info['sleeps']
    nontrivial = (nthrottled >= 1 and (len(sc['streams']) >= 2 or info['abandons'] > 0)) \
        or (sc['mode'] == 'paced' and len(ev) >= 10)
    return {
        'steps': sim.steps, 'switches': sim.switches, 'digest': sim.digest,
        'multi_points': sim.multi_points, 'sim_time': sim.now - sim.epoch,
        'violations': violations, 'harness': harness,
        'fault_kinds': {'throttled-read': [info['sleeps']] * 2,
                        'abandoned-while-waiting': [
                            sum(1 for s in sc['streams'] if s.get('abandon')), info['abandons']],
                        'late-wakeup': [1 if over else 0] * 2,
                        'stalled-thread': [1 if sc.get('stall') else 0, sim.stalls],
                        'transferring-toggle': [info['toggles']] * 2},
        'probes': {'deliveries': len(deliveries), 'scheduled': info['scheduled'],
                   'mode.' + sc['mode']: 1},
        'nontrivial': nontrivial, 'states': [], 'trace': sim.trace,
        'strategy': sc['strategy'][0],
    }


def sample_of(sc, res):
    return {'mode': sc['mode'], 'R': sc['R'], 'threshold': sc['threshold'],
            'streams': [{'prog': s['prog'][:6], 'abandon': s.get('abandon')}
                        for s in sc['streams']][:4],
            'overshoot': sc['overshoot'], 'strategy': sc['strategy'],
            'first_choices': res['trace'][:30]}


def shrink_candidates(sc):
    import copy
    if len(sc['streams']) > 1:
        for i in range(len(sc['streams'])):
            c = copy.deepcopy(sc)
            del c['streams'][i]
            yield c
    for i, s in enumerate(sc['streams']):
        if len(s['prog']) > 1:
            c = copy.deepcopy(sc)
            c['streams'][i]['prog'] = s['prog'][:len(s['prog']) // 2]
            yield c
            c = copy.deepcopy(sc)
            c['streams'][i]['prog'] = s['prog'][:-1]
            yield c
    if sc.get('overshoot'):
        c = copy.deepcopy(sc)
        c['overshoot'] = 0.0
        yield c
