"""Simulated standard-library modules.

The *real source* of threading.py, queue.py, concurrent/futures/_base.py and
concurrent/futures/thread.py is executed once per process in fresh module
objects whose imports of `_thread`, `threading`, `queue`, `time` resolve to the
simulated versions.  So Event/Condition/Semaphore/Queue/Future/
ThreadPoolExecutor are the genuine implementations running on SimLock.
"""
import _thread as _real_thread
import builtins
import concurrent.futures as _real_cf
import concurrent.futures._base as _real_cf_base
import os
import queue as _real_queue
import sys
import threading as _real_threading
import types

from . import kernel
from .kernel import SimLock

_LIBDIR = os.path.dirname(_real_threading.__file__)


# ---- simulated _thread ---------------------------------------------------

class _SimThreadModule(types.ModuleType):
    pass


sim_thread = _SimThreadModule('_thread')


POOL_ROLES = ('request', 'submission', 'io', 'extra', 'legacy', 'worker',
              'submitter', 'crt')


def _allocate_lock():
    return SimLock()


def _start_new_thread(function, args, kwargs=None):
    sim = kernel._CURRENT
    if sim is None:
        raise RuntimeError('sim _thread.start_new_thread outside a simulation')
    name = None
    role = None
    owner = getattr(function, '__self__', None)
    if owner is not None:
        name = getattr(owner, '_name', None)
        role = getattr(owner, '_sim_role', None)
        if role is None and isinstance(name, str) and '_' in name and \
                name.split('_')[0] in POOL_ROLES:
            role = name.split('_')[0]
        if role is None:
            tgt = getattr(owner, '_target', None)
            role = getattr(tgt, '__name__', None) or 'thread'
    st = sim.spawn(function, tuple(args), kwargs or {}, name=name, role=role)
    return 100000 + st.tid


def _get_ident():
    st = getattr(kernel._tls, 'st', None)
    if st is None or kernel._CURRENT is None:
        return _real_thread.get_ident()
    return 100000 + st.tid


def _set_sentinel():
    lock = SimLock()
    st = getattr(kernel._tls, 'st', None)
    if st is not None and kernel._CURRENT is not None:
        st.sentinel = lock
    return lock


sim_thread.allocate_lock = _allocate_lock
sim_thread.LockType = SimLock
sim_thread.start_new_thread = _start_new_thread
sim_thread.get_ident = _get_ident
sim_thread._set_sentinel = _set_sentinel
sim_thread.daemon_threads_allowed = _real_thread.daemon_threads_allowed
sim_thread._is_main_interpreter = getattr(
    _real_thread, '_is_main_interpreter', lambda: True)
sim_thread.get_native_id = _get_ident
sim_thread.error = RuntimeError
sim_thread.TIMEOUT_MAX = _real_thread.TIMEOUT_MAX
sim_thread._local = _real_thread._local
sim_thread._excepthook = _real_thread._excepthook
sim_thread._ExceptHookArgs = _real_thread._ExceptHookArgs
sim_thread.stack_size = _real_thread.stack_size
# deliberately no RLock attribute: threading falls back to its Python _RLock


# ---- simulated time ------------------------------------------------------

import time as _real_time  # noqa: E402  (only for the inactive fallback)


class _SimTimeModule(types.ModuleType):
    pass


sim_time = _SimTimeModule('time')


def _time():
    sim = kernel._CURRENT
    if sim is None:
        return 0.0
    return sim.now


def _sleep(d):
    sim = kernel._CURRENT
    if sim is None:
        return
    sim.sleep(d)


sim_time.time = _time
sim_time.monotonic = _time
sim_time.perf_counter = _time
sim_time.sleep = _sleep
sim_time.strftime = _real_time.strftime
sim_time.gmtime = _real_time.gmtime
sim_time.localtime = _real_time.localtime


# ---- source re-execution ---------------------------------------------------

_real_import = builtins.__import__


def _load(name, relpath, overrides, package=None):
    path = os.path.join(_LIBDIR, relpath)
    with open(path) as f:
        src = f.read()
    code = compile(src, path, 'exec')
    mod = types.ModuleType(name)
    mod.__file__ = path
    if package is not None:
        mod.__package__ = package

    def imp(n, globals=None, locals=None, fromlist=(), level=0):
        if level == 0 and n in overrides:
            v = overrides[n]
            if isinstance(v, BaseException) or (
                    isinstance(v, type) and issubclass(v, BaseException)):
                raise v
            return v
        return _real_import(n, globals, locals, fromlist, level)

    b = dict(builtins.__dict__)
    b['__import__'] = imp
    mod.__dict__['__builtins__'] = b
    exec(code, mod.__dict__)
    return mod


class _NoOsForkHooks:
    """Proxy for `os` that ignores register_at_fork (the simulated modules
    must not install process-wide fork hooks)."""

    def __getattr__(self, k):
        return getattr(os, k)

    @staticmethod
    def register_at_fork(**kw):
        return None


_os_proxy = _NoOsForkHooks()

simthreading = _load('threading', 'threading.py', {
    '_thread': sim_thread, 'time': sim_time, 'os': _os_proxy})

simqueue = _load('queue', 'queue.py', {
    'threading': simthreading, 'time': sim_time,
    '_queue': ImportError('withheld: pure-python SimpleQueue wanted')})

# code under test may catch the real queue.Empty / queue.Full
simqueue.Empty = _real_queue.Empty
simqueue.Full = _real_queue.Full

sim_cf_base = _load('concurrent.futures._base', 'concurrent/futures/_base.py', {
    'threading': simthreading, 'time': sim_time}, package='concurrent.futures')
# share exception classes with the real package: s3transfer.exceptions
# imports CancelledError from the real concurrent.futures
sim_cf_base.CancelledError = _real_cf_base.CancelledError
sim_cf_base.TimeoutError = _real_cf_base.TimeoutError
sim_cf_base.InvalidStateError = _real_cf_base.InvalidStateError
sim_cf_base.BrokenExecutor = _real_cf_base.BrokenExecutor


class _QuietLogger:
    def critical(self, *a, **k):
        pass

    exception = error = warning = info = debug = critical


sim_cf_base.LOGGER = _QuietLogger()

sim_cf = types.ModuleType('concurrent.futures')
sim_cf._base = sim_cf_base
sim_concurrent = types.ModuleType('concurrent')
sim_concurrent.futures = sim_cf

sim_cf_thread = _load('concurrent.futures.thread', 'concurrent/futures/thread.py', {
    'concurrent.futures': sim_cf, 'queue': simqueue,
    'threading': simthreading, 'os': _os_proxy}, package='concurrent.futures')
sim_cf.thread = sim_cf_thread
for _n in ('FIRST_COMPLETED', 'FIRST_EXCEPTION', 'ALL_COMPLETED',
           'CancelledError', 'TimeoutError', 'InvalidStateError',
           'BrokenExecutor', 'Future', 'Executor', 'wait', 'as_completed'):
    setattr(sim_cf, _n, getattr(sim_cf_base, _n))
sim_cf.ThreadPoolExecutor = sim_cf_thread.ThreadPoolExecutor


# ---- deterministic hashes for objects that live in sets ----------------------

def _seq_hash(self):
    try:
        return self.__dict__['_sim_hash']
    except KeyError:
        sim = kernel._CURRENT
        if sim is not None:
            h = sim.next_obj_seq()
        else:
            kernel._inactive_seq[0] += 1
            h = 10 ** 9 + kernel._inactive_seq[0]
        self.__dict__['_sim_hash'] = h
        return h


def give_seq_hash(cls):
    cls.__hash__ = _seq_hash


give_seq_hash(simthreading.Thread)
# futures are kept in sets by concurrent.futures.wait()/as_completed()
give_seq_hash(sim_cf_base.Future)


def _acquire_futures_init(self, futures):
    # the stdlib orders the condition acquisitions by id(): address-dependent
    self.futures = sorted(futures, key=hash)


sim_cf_base._AcquireFutures.__init__ = _acquire_futures_init


def _sim_excepthook(args):
    if args.exc_type is kernel.SimAbort:
        return
    sim = kernel._CURRENT
    import traceback as _tb
    txt = ''.join(_tb.format_exception(args.exc_type, args.exc_value,
                                       args.exc_traceback))
    if sim is not None:
        sim.thread_errors.append((None, getattr(args.thread, 'name', '?'),
                                  repr(args.exc_value), txt))
    else:
        sys.stderr.write(txt)


simthreading.excepthook = _sim_excepthook


# ---- between-run hygiene -------------------------------------------------------

_GLOBAL_LOCKS = []
for _m in (simthreading, simqueue, sim_cf_base, sim_cf_thread):
    for _k, _v in list(vars(_m).items()):
        if isinstance(_v, SimLock):
            _GLOBAL_LOCKS.append(_v)
        elif hasattr(_v, '_block') and isinstance(getattr(_v, '_block', None), SimLock):
            _GLOBAL_LOCKS.append(_v._block)


def reset_between_runs():
    """Forget everything a (possibly aborted) run left in module globals."""
    for lk in _GLOBAL_LOCKS:
        lk._force_reset()
    main = simthreading._main_thread
    simthreading._active.clear()
    simthreading._active[main._ident] = main
    simthreading._limbo.clear()
    simthreading._shutdown_locks.clear()
    try:
        sim_cf_thread._threads_queues.clear()
    except Exception:
        pass
    sim_cf_thread._shutdown = False
