"""Wing-Gong linearizability search for short concurrent histories.

history: list of dicts {'inv': stamp, 'ret': stamp or None, 'op': name,
'args': tuple, 'res': observed result (hashable)}.
model: step(state, op, args) -> (new_state, result) or None when the
operation is not enabled in that state (a blocking call that would wait).
States must be hashable.  Operations that never returned (ret None) may take
effect at any point after their invocation or not at all.
"""

INF = float('inf')


def linearizable(history, init_state, step, max_nodes=200000):
    n = len(history)
    ops = sorted(range(n), key=lambda i: history[i]['inv'])
    rets = [history[i]['ret'] if history[i]['ret'] is not None else INF
            for i in range(n)]
    seen = set()
    nodes = [0]
    order = []

    def search(remaining, state):
        if not remaining:
            return True
        key = (remaining, state)
        if key in seen:
            return False
        nodes[0] += 1
        if nodes[0] > max_nodes:
            raise RuntimeError('linearizability search budget exceeded')
        # only completed ops must be linearized; pending ones are optional
        if all(rets[i] == INF for i in remaining):
            return True
        min_ret = min(rets[i] for i in remaining)
        for i in ops:
            if i not in remaining:
                continue
            h = history[i]
            if h['inv'] > min_ret:
                break
            r = step(state, h['op'], h['args'])
            if r is None:
                continue
            new_state, res = r
            if rets[i] != INF and res != h['res']:
                continue
            order.append(i)
            if search(remaining - {i}, new_state):
                return True
            order.pop()
        seen.add(key)
        return False

    ok = search(frozenset(range(n)), init_state)
    return ok, list(order), nodes[0]
