"""C19 engine: the real ProcessPoolDownloader / GetObjectSubmitter /
GetObjectWorker / TransferMonitor / TransferState / futures, with the
cross-process protocol replayed in one process: processes are simulated
threads, multiprocessing queues are the simulated queue.Queue, the manager
proxy is the real TransferMonitor object, clients are SimS3, files are SimFS."""
import contextlib
import gc
import random

from . import kernel, seams, simstd
from .faults import FaultPlan
from .fs import SimFS, make_osutils
from .gen import RETRYABLE, gen_strategy, wchoice
from .s3 import SimS3
from .world import BUCKET, _short, collect_between_runs, pattern

NAME = 'pp'
PROPS = ('C19', 'C02', 'C06')
REAL = ['s3transfer.processpool.ProcessPoolDownloader', 'GetObjectSubmitter',
        'GetObjectWorker', 'TransferMonitor', 'TransferState',
        'ProcessPoolTransferFuture', 's3transfer.utils.OSUtils (get_temp_filename, allocate)',
        'stdlib threading/queue source (on simulated _thread)']
STUB = ['processes (simulated threads running the real run())',
        'multiprocessing.Queue (simulated queue.Queue)',
        'TransferMonitorManager proxy (direct object)', 'S3 client (SimS3)',
        'file system (SimFS)', 'signal handling (ignore_ctrl_c is a no-op)']
RULE = ('one evaluation = one simulated run of the in-process process-pool protocol '
        '(1-3 workers, 1-2 downloads of 1-4 jobs, optional job/allocate/rename fault, '
        'optional cancel or Ctrl-C in the with-block) under a seeded schedule; distinct = '
        'distinct trace digest; non-trivial = >=2 threads runnable at some point AND '
        '(a fault fired OR a cancel happened OR >=2 jobs ran)')
ASSUMPTIONS = ['pickling, manager-proxy connections, real process death and OS pipes are '
               'not modelled (stated in DESIGN.md section 9)']

_installed = False
_current = [None]      # the PPWorld of the running simulation


def install():
    global _installed
    if _installed:
        return
    seams.install()
    import s3transfer.processpool as pp
    th = simstd.simthreading
    pp.threading = th

    class _MP:
        @staticmethod
        def Queue(maxsize=0):
            return simstd.simqueue.Queue(maxsize)
        Process = pp.multiprocessing.Process
    pp.multiprocessing = _MP

    def start(self):
        w = _current[0]
        role = 'submitter' if isinstance(self, pp.GetObjectSubmitter) else 'worker'
        t = th.Thread(target=self.run)
        t._sim_role = role
        self._sim_thread = t
        w.procs.append(self)
        t.start()

    def join(self, timeout=None):
        self._sim_thread.join(timeout)
    pp.BaseS3TransferProcess.start = start
    pp.BaseS3TransferProcess.join = join
    pp.ignore_ctrl_c = contextlib.nullcontext

    class Monitor(pp.TransferMonitor):
        def _connect(self):
            pass

        def notify_done(self, transfer_id, *a, **k):
            w = _current[0]
            w.on_notify_done(self, transfer_id)
            return super().notify_done(transfer_id, *a, **k)

        def notify_job_complete(self, transfer_id, *a, **k):
            w = _current[0]
            w.jobs_completed[transfer_id] = w.jobs_completed.get(transfer_id, 0) + 1
            return super().notify_job_complete(transfer_id, *a, **k)

        def notify_cancel_all_in_progress(self, *a, **k):
            # the interval in which the library looks at each transfer: one that
            # became done before it began need not be cancelled, one that is
            # still unfinished after it returned must be
            w = _current[0]
            w.cancel_all_spans.append([w.sim.stamp(), None])
            try:
                return super().notify_cancel_all_in_progress(*a, **k)
            finally:
                w.cancel_all_spans[-1][1] = w.sim.stamp()

    class FakeManager:
        def start(self, initializer=None):
            pass

        def TransferMonitor(self):
            m = Monitor()
            _current[0].monitor = m
            return m

        def shutdown(self):
            _current[0].manager_shutdown = True
    pp.TransferMonitorManager = FakeManager
    pp.ClientFactory.create_client = lambda self: _current[0].s3
    pp.OSUtils = lambda: _current[0].osutil
    pp.open = lambda filename, mode: _current[0].fs.open(filename, mode)
    _installed = True


class PPWorld:
    def __init__(self, sc, chooser):
        install()
        self.scenario = sc
        self.knobs = sc.get('knobs', {})
        self.sim = kernel.Sim(chooser, max_steps=sc.get('max_steps', 60000))
        self.faults = FaultPlan(sc.get('faults'), self)
        self.s3 = SimS3(self, self.knobs)
        self.fs = SimFS(self)
        self.osutil = None
        self.violations = []
        self.probes = {}
        self.transfers = []
        self.key_to_t = {}
        self.procs = []
        self.jobs_completed = {}
        self.jobs_submitted = {}
        self.done_events = {}
        self.monitor = None
        self.manager_shutdown = False
        self.cancel_events = []
        self.cancel_all_spans = []
        self.shutdown_return = None
        self.driver_exc = None
        self.config = None
        self.dirty = False

    # hooks used by the stubs
    def probe(self, name, n=1):
        self.probes[name] = self.probes.get(name, 0) + n

    def violation(self, prop, cls, msg, sig=None):
        if self.sim.unwinding:
            return        # library code run while an aborted run is unwound
        self.violations.append([prop, cls, msg, sig or {}])

    def latency(self, op, m):
        if self.knobs.get('latency') == 'random':
            return (0, 0, 0.01, 0.25)[self.sim.choose(4, 'lat')]
        return 0

    def t_of_key(self, key):
        return self.key_to_t.get(key)

    def on_request_begin(self, rec, n):
        pass

    def on_head_begin(self, rec, n):
        pass

    def on_object_written(self, key, rec):
        pass

    def on_bytes_moved(self, kind, ident, n):
        pass

    def on_notify_done(self, monitor, tid):
        st = monitor._transfer_states[tid]
        t = self.transfers[tid] if tid < len(self.transfers) else None
        snap = {'stamp': self.sim.stamp(), 'remaining': st.jobs_to_complete,
                'exception': st.exception, 'role': self.sim.current.role,
                'completed': self.jobs_completed.get(tid, 0),
                'submitted': self.jobs_submitted.get(tid, 0)}
        if t is not None:
            cur = self.fs.files.get(t['path'])
            snap['dest'] = bytes(cur) if cur is not None else None
            snap['temps'] = self.fs.temps_of(t['path'])
        self.done_events.setdefault(tid, []).append(snap)

    def _dest_invariant(self, fs, op, path):
        d = fs.dest_of(path)
        if d is None or d != path:
            return
        t = self.transfers[fs.dests[d]]
        cur = fs.files.get(d)
        if cur is None:
            ok = t['prev'] is None
        else:
            cur = bytes(cur)
            ok = (t['prev'] is not None and cur == t['prev']) or cur == t['expect']
        if not ok:
            self.violation('C06', 'partial-visible',
                           'process pool: after %s the destination %s holds %r '
                           '(neither previous nor complete)' % (op, d, _short(cur)),
                           {'variant': 'processpool'})

    def _driver(self):
        import s3transfer.processpool as pp
        sc = self.scenario
        sim = self.sim
        seams.run_random.seed(sc.get('fs_seed', 0))
        self.osutil = make_osutils(self.fs)
        self.fs.invariants.append(self._dest_invariant)
        cfg = sc['config']
        self.config = cfg
        pp.GetObjectWorker._IO_CHUNKSIZE = self.knobs.get('io_chunk', 4)
        for i, spec in enumerate(sc['transfers']):
            t = {'idx': i, 'spec': spec, 'key': 'o%d' % i, 'path': '/d/pp%d' % i,
                 'expect': pattern(i, spec['size']), 'outcome': None, 'future': None,
                 'cancel': None, 'prev': None}
            if spec.get('prev') is not None:
                t['prev'] = bytes(pattern(i, spec['prev'], salt=3))
                self.fs.files[t['path']] = bytearray(t['prev'])
            self.fs.dests[t['path']] = i
            self.s3.objects[(BUCKET, t['key'])] = t['expect']
            self.key_to_t[t['key']] = t
            self.transfers.append(t)
        # count submitted jobs through the worker queue
        world = self
        dl = pp.ProcessPoolDownloader(
            client_kwargs={}, config=pp.ProcessTransferConfig(
                multipart_threshold=cfg['multipart_threshold'],
                multipart_chunksize=cfg['multipart_chunksize'],
                max_request_processes=cfg['max_request_processes']))
        real_put = dl._worker_queue.put

        def put(item, *a, **k):
            if item != pp.SHUTDOWN_SIGNAL:
                world.jobs_submitted[item.transfer_id] = \
                    world.jobs_submitted.get(item.transfer_id, 0) + 1
            return real_put(item, *a, **k)
        dl._worker_queue.put = put
        self.dl = dl
        script = sc['driver']
        use_with = any(a[0] == 'with_kbi' for a in script)
        try:
            if use_with:
                try:
                    with dl:
                        self._script(dl, script)
                except KeyboardInterrupt:
                    pass
                self.shutdown_return = sim.stamp()
            else:
                self._script(dl, script)
        except kernel.SimAbort:
            raise
        except BaseException as e:   # noqa
            import traceback
            self.driver_exc = (e, traceback.format_exc())
        for t in self.transfers:
            if t['future'] is not None and t['outcome'] is None and t['future'].done():
                self._collect(t)

    def _collect(self, t):
        if t['outcome'] is not None or t['future'] is None:
            return
        try:
            v = t['future'].result()
            t['outcome'] = ('ok', v, self.sim.stamp())
            # what the destination holds at the moment success is reported
            cur = self.fs.files.get(t['path'])
            t['dest_at_result'] = bytes(cur) if cur is not None else None
        except KeyboardInterrupt:
            raise
        except BaseException as e:   # noqa
            t['outcome'] = ('exc', e, self.sim.stamp())

    def _script(self, dl, script):
        sim = self.sim
        for a in script:
            op = a[0]
            if op == 'submit':
                t = self.transfers[a[1]]
                spec = t['spec']
                t['future'] = dl.download_file(
                    BUCKET, t['key'], t['path'],
                    expected_size=spec['size'] if spec.get('provide') else None)
            elif op == 'wait_step':
                sim.wait_until_step(a[1])
            elif op == 'cancel':
                t = self.transfers[a[1]]
                if t['future'] is None:
                    continue
                ev = {'how': 'future', 't': t['idx'], 'done': t['future'].done(),
                      'stamp': sim.stamp()}
                t['cancel'] = t['cancel'] or ev
                self.cancel_events.append(ev)
                self.dirty = True
                if len(a) > 2 and a[2] == 'rename':
                    # state-triggered: the cancelling thread is held at its first
                    # scheduling point inside cancel() until a worker is inside
                    # the final rename of this download
                    key = ('rename', t['path'])
                    sim.park_at_next_point(lambda: self.fs.entered.get(key, False), 800)
                    self.probe('cancel-held-until-rename')
                t['future'].cancel()
            elif op == 'result':
                self._collect(self.transfers[a[1]])
            elif op == 'shutdown':
                dl.shutdown()
                self.shutdown_return = sim.stamp()
            elif op == 'with_kbi':
                self.dirty = True
                for t in self.transfers:
                    if t['future'] is not None:
                        ev = {'how': 'with_kbi', 't': t['idx'],
                              'done': t['future'].done(), 'stamp': sim.stamp()}
                        t['cancel'] = t['cancel'] or ev
                        self.cancel_events.append(ev)
                raise KeyboardInterrupt()
            else:
                raise ValueError(op)

    def run(self):
        gc.disable()
        _current[0] = self
        try:
            self.sim.run(self._driver)
        finally:
            _current[0] = None
            simstd.reset_between_runs()
            collect_between_runs()
        return self


# ---- oracles -------------------------------------------------------------------

def evaluate(w):
    from concurrent.futures import CancelledError
    from s3transfer.exceptions import RetriesExceededError
    harness = []
    f = w.sim.failure
    if f is not None:
        if f[0] == 'deadlock':
            from .oracles import _fmt_deadlock
            w.violation('C19', 'deadlock', f[1] + ' :: ' + _fmt_deadlock(f[2]))
        elif f[0] == 'step-budget':
            w.violation('C19', 'livelock', f[1])
        else:
            harness.append((f[0], f[1]))
    for e in w.sim.thread_errors:
        harness.append(('thread-exception', e[2] + ' ' + e[3][-1200:]))
    if w.driver_exc is not None:
        harness.append(('driver-exception', repr(w.driver_exc[0]) + w.driver_exc[1][-1200:]))
    if f is not None or harness:
        return harness
    fired_fatal = {}
    retry_by_job = {}
    for fr in w.faults.fired:
        s = fr['spec']
        t = None
        if s.get('key') in w.key_to_t:
            t = w.key_to_t[s['key']]
        elif s.get('dest') is not None:
            for x in w.transfers:
                if x['path'] == s['dest']:
                    t = x
        if t is None or fr['exc'] is None:
            continue
        if s['site'] == 'stream' and s['exc'] in RETRYABLE:
            retry_by_job.setdefault((t['idx'], s.get('range')), []).append(fr['exc'])
            continue
        if s['site'] == 'fs' and s.get('op') == 'remove':
            continue
        fired_fatal.setdefault(t['idx'], []).append(fr['exc'])
    for (ti, rng), lst in retry_by_job.items():
        if len(lst) >= 5:
            fired_fatal.setdefault(ti, []).append(lst[-1])
    R = w.shutdown_return
    for t in w.transfers:
        if t['future'] is None:
            continue
        oc = t['outcome']
        tid = t['idx']
        evs = w.done_events.get(tid, [])
        if oc is None:
            w.violation('C19', 'not-done-after-shutdown',
                        'download %d is not done although shutdown returned' % tid)
            continue
        if evs and oc[2] < evs[0]['stamp']:
            # result() let the caller go before the download was notified done:
            # the future "became done" while jobs were still unaccounted for
            w.violation('C19', 'done-before-all-jobs',
                        'download %d: result() returned/raised at stamp %d, before the done '
                        'notification at %d (jobs completed then: %d of %d)'
                        % (tid, oc[2], evs[0]['stamp'], evs[0]['completed'], evs[0]['submitted']))
        if len(evs) != 1:
            w.violation('C19', 'done-notified-%d-times' % len(evs),
                        'download %d: notify_done called %d times' % (tid, len(evs)))
        for ev in evs[:1]:
            if ev['role'] != 'submitter':
                if ev['remaining'] != 0 or ev['completed'] != ev['submitted']:
                    w.violation('C19', 'done-before-all-jobs',
                                'download %d became done with %d job(s) still unaccounted '
                                '(%d of %d jobs completed)' % (tid, ev['remaining'],
                                                               ev['completed'], ev['submitted']))
            else:
                if ev['submitted']:
                    w.violation('C19', 'submitter-done-with-jobs-queued',
                                'download %d was finished by the submitter although %d job(s) '
                                'were queued' % (tid, ev['submitted']))
            if ev['temps']:
                w.violation('C19', 'temp-at-done',
                            'download %d became done while temporary file(s) %r still exist'
                            % (tid, ev['temps']))
            if ev['exception'] is None:
                if ev['dest'] != t['expect']:
                    w.violation('C19', 'done-success-without-file',
                                'download %d became done without error but the destination '
                                'holds %r, object is %r' % (tid, _short(ev['dest']),
                                                            _short(t['expect'])))
            else:
                if ev['dest'] != t['prev'] and ev['dest'] != t['expect']:
                    w.violation('C19', 'done-failure-dest-garbage',
                                'download %d failed but the destination holds %r'
                                % (tid, _short(ev['dest'])))
                elif ev['dest'] != t['prev'] and not isinstance(ev['exception'], CancelledError):
                    w.violation('C19', 'done-failure-dest-changed',
                                'download %d failed with %r but the destination was replaced'
                                % (tid, ev['exception']))
        # result() raises iff an exception was recorded
        st_exc = w.monitor._transfer_states[tid].exception if w.monitor else None
        if (oc[0] == 'exc') != (st_exc is not None) and not (
                t['cancel'] is not None and t['cancel']['stamp'] > oc[2]):
            w.violation('C19', 'result-exception-mismatch',
                        'download %d: result() -> %r but recorded exception is %r'
                        % (tid, oc[:2], st_exc))
        # an injected job failure must surface (never a normal return)
        if fired_fatal.get(tid) and oc[0] == 'ok':
            w.violation('C19', 'success-despite-failure',
                        'download %d returned normally although %r fired'
                        % (tid, [repr(x)[:50] for x in fired_fatal[tid]]))
        if oc[0] == 'ok' and 'dest_at_result' in t and t['dest_at_result'] != t['expect']:
            w.violation('C02', 'content-differs',
                        'process pool download %d: when result() returned normally the file '
                        'held %r, object is %r' % (tid, _short(t['dest_at_result']),
                                                   _short(t['expect'])),
                        {'variant': 'processpool-at-result'})
        if oc[0] == 'ok':
            cur = w.fs.files.get(t['path'])
            cur = bytes(cur) if cur is not None else None
            if cur != t['expect']:
                w.violation('C02', 'content-differs',
                            'process pool download %d success but file holds %r, object is %r'
                            % (tid, _short(cur), _short(t['expect'])),
                            {'variant': 'processpool'})
        if oc[0] == 'exc':
            # C06: after a failure the previous destination content is
            # untouched; after a cancellation untouched or the complete object
            cur = w.fs.files.get(t['path'])
            cur = bytes(cur) if cur is not None else None
            if cur != t['prev']:
                if not isinstance(oc[1], CancelledError):
                    w.violation('C06', 'dest-after-failure',
                                'process pool download %d failed with %r but the destination '
                                'holds %r, previous content was %r'
                                % (tid, oc[1], _short(cur), _short(t['prev'])),
                                {'variant': 'processpool'})
                elif cur != t['expect']:
                    w.violation('C06', 'dest-after-cancel',
                                'process pool download %d was cancelled and the destination '
                                'holds %r: neither the previous content nor the object'
                                % (tid, _short(cur)), {'variant': 'processpool'})
        if oc[0] == 'exc' and not fired_fatal.get(tid) and t['cancel'] is None \
                and not retry_by_job:
            w.violation('C19', 'spurious-failure',
                        'download %d failed with %r without any fault or cancel' % (tid, oc[1]))
        # Ctrl-C in the with-block cancels the unfinished ones
        c = t['cancel']
        # (a download is "unfinished" for this purpose if its done notification
        # came only after the library's cancel-all pass had returned: the
        # harness's own look at done() just before raising Ctrl-C is not atomic
        # with that pass, whatever scheduling points the library has in between)
        span = w.cancel_all_spans[0] if w.cancel_all_spans else None
        done_at = min([e.get('stamp', 0) for e in evs], default=None)
        unfinished = span is not None and span[1] is not None and \
            (done_at is None or done_at > span[1])
        if c is not None and c['how'] == 'with_kbi' and not c['done'] and unfinished:
            if oc[0] != 'exc' or not (isinstance(oc[1], CancelledError) or fired_fatal.get(tid)):
                w.violation('C19', 'ctrl-c-did-not-cancel',
                            'download %d was unfinished at Ctrl-C but outcome is %r'
                            % (tid, oc[:2]))
        if c is not None and c['how'] == 'future' and not c['done'] and oc[0] == 'ok':
            w.violation('C19', 'cancel-ignored',
                        'download %d was cancelled before it was done but result() returned normally'
                        % tid)
        temps = w.fs.temps_of(t['path'])
        if temps and not any(fr['spec']['site'] == 'fs' and fr['spec'].get('op') == 'remove'
                             for fr in w.faults.fired):
            w.violation('C06', 'temp-left',
                        'process pool download %d done but temporary file(s) %r remain'
                        % (tid, temps), {'variant': 'processpool'})
    if R is not None:
        for r in w.s3.log:
            if r['begin'] > R:
                w.violation('C19', 'request-after-shutdown',
                            '%s after shutdown returned' % r['op'])
                break
        for (stamp, op, path, extra, tid) in w.fs.log:
            if stamp > R:
                w.violation('C19', 'fs-after-shutdown', 'fs %s %s after shutdown returned'
                            % (op, path))
                break
    return harness


# ---- generation -------------------------------------------------------------------

def generate(prop, seed):
    rng = random.Random(seed)
    T = rng.randint(1, 10)
    C = rng.randint(1, 6)
    cfg = {'multipart_threshold': T, 'multipart_chunksize': C,
           'max_request_processes': rng.choice([1, 2, 2, 3])}
    n = rng.choice([1, 1, 2])
    transfers = []
    for i in range(n):
        njobs = rng.randint(1, 4)
        if rng.random() < 0.3:
            size = rng.randint(0, max(0, T - 1))
        else:
            size = max(T, C * (njobs - 1) + rng.randint(1, C))
        transfers.append({'size': size, 'provide': rng.random() < 0.4,
                          'prev': wchoice(rng, [(None, 2), (rng.randint(0, 6), 1)])})
    faults = []
    r = rng.random()
    if r < 0.55:
        i = rng.randrange(n)
        t = transfers[i]
        key = 'o%d' % i
        ranged = t['size'] >= T
        if ranged:
            nparts = (t['size'] + C - 1) // C
            p = rng.randrange(nparts)
            rstr = 'bytes=%d-%s' % (p * C, '' if p == nparts - 1 else p * C + C - 1)
            plen = min(C, t['size'] - p * C)
        else:
            rstr, plen = None, t['size']
        kind = rng.choice(['head', 'get', 'stream_fatal', 'stream_retry', 'exhaust',
                           'write', 'open', 'alloc', 'rename'])
        if kind == 'head':
            faults.append({'site': 's3', 'op': 'head_object', 'key': key, 'exc': 'client'})
        elif kind == 'get':
            faults.append({'site': 's3', 'op': 'get_object', 'key': key, 'range': rstr,
                           'exc': rng.choice(['client', 'simfault']),
                           'when': rng.choice(['before', 'after'])})
        elif kind == 'stream_fatal':
            faults.append({'site': 'stream', 'key': key, 'range': rstr, 'attempt': 0,
                           'at': rng.randint(0, plen), 'exc': rng.choice(['client', 'value'])})
        elif kind == 'stream_retry':
            for a in range(rng.randint(1, 4)):
                faults.append({'site': 'stream', 'key': key, 'range': rstr, 'attempt': a,
                               'at': rng.randint(0, plen), 'exc': rng.choice(RETRYABLE)})
        elif kind == 'exhaust':
            for a in range(5):
                faults.append({'site': 'stream', 'key': key, 'range': rstr, 'attempt': a,
                               'at': rng.randint(0, plen), 'exc': rng.choice(RETRYABLE)})
        elif kind == 'write':
            faults.append({'site': 'fs', 'op': 'write', 'dest': '/d/pp%d' % i,
                           'nth': rng.randint(0, 3), 'exc': 'oserror',
                           'short': rng.random() < 0.5})
        elif kind == 'open':
            faults.append({'site': 'fs', 'op': 'open', 'dest': '/d/pp%d' % i, 'mode': 'r',
                           'nth': rng.randint(0, 2), 'exc': 'oserror'})
        elif kind == 'alloc':
            if rng.random() < 0.4:
                # the error surfaces when the freshly allocated file is closed
                # (deferred ENOSPC / EDQUOT): the first close of this destination
                faults.append({'site': 'fs', 'op': 'close', 'dest': '/d/pp%d' % i,
                               'exc': 'oserror'})
            else:
                faults.append({'site': 'fs', 'op': 'open', 'dest': '/d/pp%d' % i, 'mode': 'w',
                               'exc': 'oserror'})
        else:
            faults.append({'site': 'fs', 'op': 'rename', 'dest': '/d/pp%d' % i,
                           'exc': 'oserror'})
    est = 150 + 120 * sum(1 + (t['size'] // C) for t in transfers)
    script = [['submit', i] for i in range(n)]
    r = rng.random()
    rename_fault = bool(faults) and faults[-1].get('op') == 'rename'
    if rename_fault and rng.random() < 0.5:
        r = 0.0        # a failing rename AND a cancel
    if r < 0.3:
        act = ['cancel', rng.randrange(n)]
        step = rng.randint(0, est)
        if rng.random() < (0.7 if rename_fault else 0.3):
            act.append('rename')       # land while the final rename is in progress
            step = rng.randint(0, 20)
            if rename_fault:
                act[1] = i
        script += [['wait_step', step], act]
        script += [['result', i] for i in range(n)] + [['shutdown']]
    elif r < 0.55:
        script += [['wait_step', rng.randint(0, est)], ['with_kbi']]
    elif r < 0.8:
        script += [['result', i] for i in range(n)] + [['shutdown']]
    else:
        script += [['shutdown']] + [['result', i] for i in range(n)]
    return {'config': cfg, 'transfers': transfers, 'faults': faults, 'driver': script,
            'knobs': {'io_chunk': rng.randint(1, 5), 'short_reads': rng.random() < 0.6,
                      'latency': wchoice(rng, [('none', 3), ('random', 1)]),
                      'fs_buffer': wchoice(rng, [(8192, 3), (0, 1), (3, 1)]),
                      'validate_params': True},
            'strategy': gen_strategy(rng, est), 'sched_seed': rng.randrange(1 << 62),
            'fs_seed': rng.randrange(1 << 30), 'max_steps': 60 * est + 20000,
            'seed': seed, 'prop': prop}


def execute(sc, choices=None, lenient=False):
    if choices is not None:
        chooser = kernel.ReplayChooser(choices, lenient=lenient)
    else:
        chooser = kernel.RandomChooser(sc['sched_seed'], tuple(sc['strategy']))
    w = PPWorld(sc, chooser).run()
    harness = evaluate(w)
    sim = w.sim
    fired = [f for f in w.faults.summary() if f['fired']]
    kinds = {}
    for f in w.faults.summary():
        k = f['site'] + ':' + str(f.get('op') or f.get('exc') or '')
        c = kinds.setdefault(k, [0, 0])
        c[0] += 1
        c[1] += 1 if f['fired'] else 0
    for ev in w.cancel_events:
        c = kinds.setdefault('cancel:' + ev['how'], [0, 0])
        c[0] += 1
        c[1] += 1
    njobs = sum(w.jobs_submitted.values())
    return {
        'steps': sim.steps, 'switches': sim.switches, 'digest': sim.digest,
        'multi_points': sim.multi_points, 'sim_time': sim.now - sim.epoch,
        'violations': w.violations, 'harness': harness,
        'harness_detail': [h[1] for h in harness][:1],
        'fault_kinds': kinds, 'probes': dict(w.probes, jobs=njobs),
        'nontrivial': sim.multi_points >= 1 and (bool(fired) or bool(w.cancel_events)
                                                 or njobs >= 2),
        'requests': len(w.s3.log), 'states': [], 'trace': sim.trace,
        'strategy': sc['strategy'][0],
        'outcomes': [(t['outcome'][0] if t['outcome'] else None) for t in w.transfers],
    }


def sample_of(sc, res):
    return {'config': sc['config'], 'transfers': sc['transfers'], 'faults': sc['faults'],
            'driver': sc['driver'], 'strategy': sc['strategy'],
            'first_choices': res['trace'][:40], 'outcomes': res['outcomes']}


def shrink_candidates(sc):
    import copy
    for j in range(len(sc.get('faults') or [])):
        c = copy.deepcopy(sc)
        del c['faults'][j]
        yield c
    for key, val in (('latency', 'none'), ('short_reads', False)):
        if sc['knobs'].get(key) not in (None, val):
            c = copy.deepcopy(sc)
            c['knobs'][key] = val
            yield c
    if sc['config']['max_request_processes'] > 1:
        c = copy.deepcopy(sc)
        c['config']['max_request_processes'] -= 1
        yield c
