"""Statement-level pre-emption inside s3transfer code (optional, per run).

With the knob on, every LINE event (sys.monitoring, PEP 669) of a code object
that lives in /repo/s3transfer is one more scheduling point, so unsynchronised
reads such as `coordinator.done()` / `.exception` / `_callbacks_enabled` can be
interleaved at statement granularity.  No change to the repository: events are
switched on per code object from the harness and off again after the run."""
import sys
import types

from . import kernel

_MON = getattr(sys, 'monitoring', None)
_TOOL = 4
_codes = None
_registered = False
_active = [False]


def available():
    return _MON is not None


def _collect():
    global _codes
    if _codes is not None:
        return _codes
    seen = {}

    def add(code):
        if id(code) in seen:
            return
        seen[id(code)] = code
        for c in code.co_consts:
            if isinstance(c, types.CodeType):
                add(c)
    for name, mod in list(sys.modules.items()):
        if not (name == 's3transfer' or name.startswith('s3transfer.')) or mod is None:
            continue
        fn = getattr(mod, '__file__', '') or ''
        for obj in list(vars(mod).values()):
            funcs = []
            if isinstance(obj, types.FunctionType):
                funcs.append(obj)
            elif isinstance(obj, type):
                for v in vars(obj).values():
                    if isinstance(v, types.FunctionType):
                        funcs.append(v)
                    elif isinstance(v, (staticmethod, classmethod)):
                        funcs.append(v.__func__)
                    elif isinstance(v, property):
                        funcs += [f for f in (v.fget, v.fset) if f is not None]
            for f in funcs:
                code = getattr(f, '__code__', None)
                if code is not None and '/s3transfer/' in code.co_filename:
                    add(code)
    _codes = list(seen.values())
    return _codes


def _on_line(code, line):
    sim = kernel._CURRENT
    if sim is None or not _active[0]:
        return None
    st = getattr(kernel._tls, 'st', None)
    if st is None or sim.current is not st:
        return None
    sim.point('ln')
    return None


def enable():
    global _registered
    if _MON is None:
        return False
    if not _registered:
        try:
            _MON.use_tool_id(_TOOL, 'simv-linepre')
        except ValueError:
            pass
        _MON.register_callback(_TOOL, _MON.events.LINE, _on_line)
        _registered = True
    for code in _collect():
        _MON.set_local_events(_TOOL, code, _MON.events.LINE)
    _active[0] = True
    return True


def disable():
    if _MON is None or not _active[0]:
        return
    _active[0] = False
    for code in _collect():
        _MON.set_local_events(_TOOL, code, 0)
