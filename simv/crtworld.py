"""C20 engine: the real s3transfer/crt.py (CRTTransferManager, coordinator,
future, S3ClientArgsCreator, handlers) against SimCRT, a stub `awscrt` whose
S3Client completes requests from simulated CRT event-loop threads in
scheduler-chosen order: success, error, cancelled, or failure at construction."""
import enum
import gc
import random
import sys
import types

from . import kernel, seams, simstd
from .faults import FaultPlan
from .fs import SimFS, make_osutils
from .gen import gen_strategy, wchoice
from .world import _short, collect_between_runs, pattern

NAME = 'crt'
PROPS = ('C20',)
REAL = ['s3transfer.crt.CRTTransferManager', 'CRTTransferCoordinator', 'CRTTransferFuture',
        'S3ClientArgsCreator', 'RenameTempFileHandler', 'AfterDoneHandler',
        'OnBodyFileObjWriter', 's3transfer.utils.get_callbacks / OSUtils.get_temp_filename',
        'stdlib threading.Semaphore/Event + concurrent.futures.Future source '
        '(on simulated _thread)']
STUB = ['awscrt package (SimCRT: S3Client.make_request, S3Request.finished_future/cancel, '
        'event-loop threads)', 'CRT request serializer (BaseCRTRequestSerializer subclass)',
        'file system (SimFS)', 'subscribers']
RULE = ('one evaluation = one seeded sequence of upload/download/delete submissions against '
        'the stub CRT client with a seeded outcome per request (success / error / cancelled / '
        'construction failure), more transfers than permits, completions in scheduler-chosen '
        'order; distinct = distinct trace digest; non-trivial = >=2 threads runnable at some '
        'point AND (some request failed/was cancelled/failed at construction OR the submitter '
        'had to wait for a permit)')
ASSUMPTIONS = ['awscrt is not installed: only the Python glue of crt.py is exercised; the stub '
               'follows awscrt.s3.S3Request semantics (finished_future is resolved, then '
               'on_done is called, on an event-loop thread)',
               'subscriber exceptions are not injected (not among the statement\'s paths)']

_installed = False
_current = [None]


class SimS3ResponseError(Exception):
    def __init__(self, code=0, name='', message='', status_code=500, headers=None,
                 body=None, operation_name=None):
        super().__init__(message)
        self.code = code
        self.name = name
        self.message = message
        self.status_code = status_code
        self.headers = headers
        self.body = body
        self.operation_name = operation_name


class SimCrtError(Exception):
    pass


def _install_stub_awscrt():
    if 'awscrt' in sys.modules and getattr(sys.modules['awscrt'], '_is_sim', False):
        return
    awscrt = types.ModuleType('awscrt')
    awscrt._is_sim = True
    http = types.ModuleType('awscrt.http')
    s3 = types.ModuleType('awscrt.s3')
    auth = types.ModuleType('awscrt.auth')
    io = types.ModuleType('awscrt.io')
    exceptions = types.ModuleType('awscrt.exceptions')

    class HttpHeaders(list):
        def __init__(self, pairs=None):
            super().__init__(pairs or [])

    class HttpRequest:
        def __init__(self, method='GET', path='/', headers=None, body_stream=None):
            self.method = method
            self.path = path
            self.headers = headers
            self.body_stream = body_stream
    http.HttpHeaders = HttpHeaders
    http.HttpRequest = HttpRequest

    class S3RequestType(enum.IntEnum):
        DEFAULT = 0
        GET_OBJECT = 1
        PUT_OBJECT = 2

    class S3RequestTlsMode(enum.IntEnum):
        ENABLED = 0
        DISABLED = 1

    class S3ChecksumAlgorithm(enum.IntEnum):
        CRC32C = 1
        CRC32 = 2
        SHA1 = 3
        SHA256 = 4
        CRC64NVME = 5

    class S3ChecksumLocation(enum.IntEnum):
        HEADER = 1
        TRAILER = 2

    class S3ChecksumConfig:
        def __init__(self, algorithm=None, location=None, validate_response=False):
            self.algorithm = algorithm
            self.location = location
            self.validate_response = validate_response

    class S3Client:
        def __init__(self, *a, **k):
            pass

        def make_request(self, **kwargs):
            return _current[0].crt_make_request(kwargs)

    class CrossProcessLock:
        def __init__(self, name):
            pass

        def acquire(self):
            pass
    s3.S3RequestType = S3RequestType
    s3.S3RequestTlsMode = S3RequestTlsMode
    s3.S3ChecksumAlgorithm = S3ChecksumAlgorithm
    s3.S3ChecksumLocation = S3ChecksumLocation
    s3.S3ChecksumConfig = S3ChecksumConfig
    s3.S3Client = S3Client
    s3.S3ResponseError = SimS3ResponseError
    s3.CrossProcessLock = CrossProcessLock
    s3.get_recommended_throughput_target_gbps = lambda: 10.0
    for n in ('AwsCredentials', 'AwsCredentialsProvider', 'AwsSigningConfig'):
        setattr(auth, n, type(n, (), {'__init__': lambda self, *a, **k: None}))

    class AwsSigningAlgorithm(enum.IntEnum):
        V4 = 0
        V4_ASYMMETRIC = 1
        V4_S3EXPRESS = 2
    auth.AwsSigningAlgorithm = AwsSigningAlgorithm
    for n in ('ClientBootstrap', 'ClientTlsContext', 'DefaultHostResolver',
              'EventLoopGroup', 'TlsContextOptions'):
        setattr(io, n, type(n, (), {'__init__': lambda self, *a, **k: None}))
    exceptions.AwsCrtError = SimCrtError
    awscrt.http, awscrt.s3, awscrt.auth, awscrt.io = http, s3, auth, io
    awscrt.exceptions = exceptions
    sys.modules.update({'awscrt': awscrt, 'awscrt.http': http, 'awscrt.s3': s3,
                        'awscrt.auth': auth, 'awscrt.io': io,
                        'awscrt.exceptions': exceptions})


def install():
    global _installed
    if _installed:
        return
    seams.install()
    _install_stub_awscrt()
    import s3transfer.crt as crt
    crt.threading = simstd.simthreading
    crt.OSUtils = lambda: _current[0].osutil
    _installed = True


class _Request:
    """awscrt.s3.S3Request as far as crt.py uses it."""

    def __init__(self, world, idx, kwargs):
        self.world = world
        self.idx = idx
        self.kwargs = kwargs
        self.finished_future = simstd.sim_cf.Future()
        self.cancelled = False
        self.finished = False

    def cancel(self):
        w = self.world
        w.sim.spoint('crt.cancel')
        self.cancelled = True
        w.cancel_calls += 1


class CRTWorld:
    def __init__(self, sc, chooser):
        install()
        self.scenario = sc
        self.sim = kernel.Sim(chooser, max_steps=sc.get('max_steps', 60000))
        self.faults = FaultPlan(sc.get('faults') or [], self)
        self.shutdown_started = False
        self.fs = SimFS(self)
        self.osutil = None
        self.violations = []
        self.probes = {}
        self.transfers = []
        self.requests = []          # _Request objects in make_request order
        self.pending = []           # not yet completed
        self.cancel_calls = 0
        self.made = 0
        self.callbacks_done = 0
        self.releases_started = 0
        self.max_outstanding = 0
        self.blocked_for_permit = 0
        self.shutdown_return = None
        self.driver_exc = None
        self.driver_finished = False
        self.sem_over = 0
        self.permits = sc['permits']
        self.mgr = None

    def probe(self, name, n=1):
        self.probes[name] = self.probes.get(name, 0) + n

    def violation(self, prop, cls, msg, sig=None):
        if self.sim.unwinding:
            return        # library code run while an aborted run is unwound
        self.violations.append([prop, cls, msg, sig or {}])

    # ---- SimCRT ---------------------------------------------------------------
    def crt_make_request(self, kwargs):
        sim = self.sim
        sim.spoint('crt.make_request')
        t = self.transfers[self._submitting]
        if t['spec']['outcome'] == 'construct_fail' and t['spec'].get('where') == 'make_request':
            raise SimCrtError('make_request failed for t%d' % t['idx'])
        req = _Request(self, t['idx'], kwargs)
        t['request'] = req
        self.requests.append(req)
        self.pending.append(req)
        self.made += 1
        out = self.made - self.releases_started
        if out > self.max_outstanding:
            self.max_outstanding = out
        if out > self.permits:
            self.violation('C20', 'permits-exceeded',
                           '%d CRT requests outstanding with %d permits' % (out, self.permits))
        # the CRT runs the request on its own threads: it may finish, and call
        # on_done, before make_request() has returned to the Python caller
        sim.spoint('crt.made')
        return req

    def _event_loop(self, li):
        sim = self.sim
        while True:
            sim.spoint('crt.loop')
            if not self.pending:
                if self.driver_finished:
                    return
                sim.wait_until_step(sim.steps + 40)
                if not self.pending and self.driver_finished:
                    return
                continue
            # a request marked slow stays in flight until shutdown has begun
            ready = [r for r in self.pending
                     if self.shutdown_started or not self.transfers[r.idx]['spec'].get('slow')]
            if not ready:
                sim.wait_until_step(sim.steps + 40)
                continue
            k = sim.choose(len(ready), 'crt.pick')
            req = ready[k]
            self.pending.remove(req)
            self._complete(req)

    def _complete(self, req):
        sim = self.sim
        t = self.transfers[req.idx]
        spec = t['spec']
        kw = req.kwargs
        outcome = spec['outcome']
        if req.cancelled:
            outcome = 'cancelled'
        elif outcome == 'cancel_late':
            outcome = 'ok'
        error = None
        data = t.get('expect', b'')
        recv = kw.get('recv_filepath')
        on_body = kw.get('on_body')
        n = len(data)
        part = n if outcome == 'ok' else spec.get('partial', 0) % (n + 1)
        try:
            if recv is not None:
                f = self.fs.open(recv, 'wb')
                step = max(1, spec.get('chunk', 4))
                for off in range(0, part, step):
                    f.write(data[off:min(part, off + step)])
                    kw['on_progress'](min(step, part - off))
                f.close()
            elif on_body is not None:
                step = max(1, spec.get('chunk', 4))
                for off in range(0, part, step):
                    sim.spoint('crt.body')
                    on_body(chunk=data[off:min(part, off + step)], offset=off)
                    kw['on_progress'](min(step, part - off))
            elif kw.get('send_filepath') is not None or t['type'] == 'upload':
                kw['on_progress'](part)
        except kernel.SimAbort:
            raise
        except BaseException as e:   # noqa   (a callback raised inside CRT)
            error = e
        if error is None:
            if outcome == 'error':
                error = SimS3ResponseError(code=14343, name='AWS_ERROR_S3_INVALID_RESPONSE_STATUS',
                                           message='injected', status_code=500,
                                           operation_name='Op')
            elif outcome == 'error_generic':
                error = SimCrtError('injected generic CRT failure')
            elif outcome == 'cancelled':
                error = SimCrtError('AWS_ERROR_S3_CANCELED')
        t['crt_error'] = error
        # awscrt: the future is resolved first, then on_done is invoked
        if error is not None:
            req.finished_future.set_exception(error)
        else:
            req.finished_future.set_result(None)
        req.finished = True
        t['future_resolved'] = sim.stamp()
        sim.spoint('crt.between')
        try:
            kw['on_done'](error=error, error_headers=None, error_body=None,
                          error_operation_name=None, status_code=None,
                          did_validate_checksum=False, checksum_validation_algorithm=None)
        except kernel.SimAbort:
            raise
        except Exception:   # noqa
            # the native layer reports an exception that escapes a Python
            # callback and drops it; the request is over either way
            self.probe('on_done-raised')
        self.callbacks_done += 1
        t['on_done_returned'] = sim.stamp()
        v = self.mgr._semaphore._value
        if v > self.permits:
            self.sem_over += 1

    # ---- driver ------------------------------------------------------------------
    def _driver(self):
        import s3transfer.crt as crt
        from s3transfer.subscribers import BaseSubscriber
        sc = self.scenario
        sim = self.sim
        th = simstd.simthreading
        seams.run_random.seed(sc.get('fs_seed', 0))
        self.osutil = make_osutils(self.fs)
        world = self

        class Serializer(crt.BaseCRTRequestSerializer):
            def serialize_http_request(self, transfer_type, future):
                t = world.transfers[world._submitting]
                if t['spec']['outcome'] == 'construct_fail' and \
                        t['spec'].get('where') == 'serialize':
                    raise ValueError('cannot serialize t%d' % t['idx'])
                return ('http-request', transfer_type)

            def translate_crt_exception(self, exception):
                if isinstance(exception, SimS3ResponseError) and sc.get('translate'):
                    return RuntimeError('translated: %s' % exception.message)
                return None

        class Sub(BaseSubscriber):
            def __init__(self, tidx):
                self.tidx = tidx

            def on_queued(self, future, **kwargs):
                world.transfers[self.tidx]['cbs'].append((sim.stamp(), 'queued', None))

            def on_progress(self, future, bytes_transferred, **kwargs):
                world.transfers[self.tidx]['cbs'].append(
                    (sim.stamp(), 'progress', bytes_transferred))

            def on_done(self, future, **kwargs):
                sim.spoint('cb.done')
                t = world.transfers[self.tidx]
                t['cbs'].append((sim.stamp(), 'done',
                                 getattr(getattr(future._coordinator, '_done_event', None), 'is_set', lambda: None)()))

        # the instant a transfer is reported as having finished its callbacks:
        # a path download must be published / its temporary file removed by then
        real_set_complete = crt.CRTTransferCoordinator.set_done_callbacks_complete

        def set_complete(coord):
            for t in world.transfers:
                if t['future'] is not None and t['future']._coordinator is coord and \
                        t['type'] == 'download' and t['spec']['dst'] == 'path':
                    # this transfer's own temporary file (a twin download to
                    # the same destination has another one)
                    req = t.get('request')
                    recv = req.kwargs.get('recv_filepath') if req is not None else None
                    temps = [recv] if recv is not None and recv in world.fs.files else []
                    t['at_complete'] = (sim.stamp(), temps)
            return real_set_complete(coord)
        crt.CRTTransferCoordinator.set_done_callbacks_complete = set_complete
        self._restore.append(lambda: setattr(
            crt.CRTTransferCoordinator, 'set_done_callbacks_complete', real_set_complete))
        mgr = crt.CRTTransferManager(sys.modules['awscrt.s3'].S3Client(), Serializer())
        mgr._semaphore = th.Semaphore(self.permits)
        real_release = mgr._release_semaphore

        def counted_release(**kwargs):
            world.releases_started += 1
            return real_release(**kwargs)
        mgr._release_semaphore = counted_release
        self.mgr = mgr
        loops = []
        for li in range(sc['loops']):
            lt = th.Thread(target=self._event_loop, args=(li,))
            lt._sim_role = 'crt'
            lt.start()
            loops.append(lt)
        for i, spec in enumerate(sc['transfers']):
            t = {'idx': i, 'spec': spec, 'type': spec['type'], 'cbs': [], 'future': None,
                 'outcome': None, 'request': None}
            twin = spec.get('same_dest_as')
            if spec['type'] == 'download' and twin is not None:
                # a second download of the same object to the same destination
                # (an application retrying, two callers): each transfer has its
                # own temporary file, so one failing must not harm the other
                o = self.transfers[twin]
                t['expect'] = o['expect']
                t['path'] = o['path']
                t['prev'] = o['prev']
                t['shared_dest'] = o['shared_dest'] = True
            elif spec['type'] == 'download':
                t['expect'] = pattern(i, spec['size'])
                if spec['dst'] == 'path':
                    t['path'] = '/d/crt%d' % i
                    t['prev'] = None
                    if spec.get('prev') is not None:
                        t['prev'] = bytes(pattern(i, spec['prev'], salt=3))
                        self.fs.files[t['path']] = bytearray(t['prev'])
                    self.fs.dests[t['path']] = i
                else:
                    t['sink'] = _Sink()
            elif spec['type'] == 'upload':
                t['expect'] = pattern(i, spec['size'])
                if spec.get('src') == 'path':
                    t['path'] = '/d/crtup%d' % i
                    self.fs.files[t['path']] = bytearray(t['expect'])
            self.transfers.append(t)
        try:
            script = sc['driver']
            use_with = any(a[0] == 'with_raise' for a in script)
            if use_with:
                try:
                    with mgr:
                        self._script(mgr, script, Sub)
                except _Exit:
                    pass
                self.shutdown_return = sim.stamp()
            else:
                self._script(mgr, script, Sub)
        except kernel.SimAbort:
            raise
        except BaseException as e:   # noqa
            import traceback
            self.driver_exc = (e, traceback.format_exc())
        self.driver_finished = True
        for lt in loops:
            lt.join()

    def _script(self, mgr, script, Sub):
        sim = self.sim
        for a in script:
            op = a[0]
            if op == 'submit':
                t = self.transfers[a[1]]
                spec = t['spec']
                self._submitting = t['idx']
                if mgr._semaphore._value == 0:
                    self.blocked_for_permit += 1
                t['submit_stamp'] = sim.stamp()
                subs = [Sub(t['idx']) for _ in range(spec.get('nsubs', 1))]
                if spec['type'] == 'download':
                    dst = t['path'] if spec['dst'] == 'path' else t['sink']
                    t['future'] = mgr.download('bkt', 'k%d' % t['idx'], dst, subscribers=subs)
                elif spec['type'] == 'upload':
                    src = t['path'] if spec.get('src') == 'path' else _Src(t['expect'])
                    t['future'] = mgr.upload(src, 'bkt', 'k%d' % t['idx'], subscribers=subs)
                else:
                    t['future'] = mgr.delete('bkt', 'k%d' % t['idx'], subscribers=subs)
                t['submitted_stamp'] = sim.stamp()
            elif op == 'wait_step':
                sim.wait_until_step(a[1])
            elif op == 'cancel':
                t = self.transfers[a[1]]
                if t['future'] is not None:
                    t['cancel_stamp'] = sim.stamp()
                    t['future'].cancel()
            elif op == 'result':
                self._collect(self.transfers[a[1]])
            elif op == 'shutdown':
                self.shutdown_started = True
                mgr.shutdown(a[1] if len(a) > 1 else False)
                self.shutdown_return = sim.stamp()
            elif op == 'with_raise':
                raise _Exit()
            else:
                raise ValueError(op)

    def _collect(self, t):
        if t['future'] is None or t['outcome'] is not None:
            return
        try:
            t['future'].result()
            t['outcome'] = ('ok', None, self.sim.stamp())
        except KeyboardInterrupt:
            raise
        except BaseException as e:   # noqa
            t['outcome'] = ('exc', e, self.sim.stamp())

    def run(self):
        gc.disable()
        _current[0] = self
        self._restore = []
        try:
            self.sim.run(self._driver)
        finally:
            for fn in self._restore:
                fn()
            _current[0] = None
            simstd.reset_between_runs()
            collect_between_runs()
        return self


class _Exit(Exception):
    pass


class _Sink:
    def __init__(self):
        self.data = bytearray()

    def write(self, b):
        self.data += b


class _Src:
    def __init__(self, data):
        self._d = data
        self._p = 0

    def read(self, n=-1):
        if n is None or n < 0:
            n = len(self._d) - self._p
        out = self._d[self._p:self._p + n]
        self._p += len(out)
        return out

    def seek(self, where, whence=0):
        self._p = where

    def tell(self):
        return self._p


def evaluate(w):
    harness = []
    f = w.sim.failure
    if f is not None:
        if f[0] == 'deadlock':
            from .oracles import _fmt_deadlock
            w.violation('C20', 'deadlock', f[1] + ' :: ' + _fmt_deadlock(f[2]))
        elif f[0] == 'step-budget':
            w.violation('C20', 'livelock', f[1])
        else:
            harness.append((f[0], f[1]))
    for e in w.sim.thread_errors:
        harness.append(('thread-exception', e[2] + ' ' + e[3][-1500:]))
    if w.driver_exc is not None:
        harness.append(('driver-exception', repr(w.driver_exc[0]) + w.driver_exc[1][-1500:]))
    if f is not None or harness:
        return harness
    v = w.mgr._semaphore._value
    if v != w.permits:
        w.violation('C20', 'permit-leak' if v < w.permits else 'permit-double-release',
                    'semaphore at %d of %d after every transfer finished' % (v, w.permits))
    if w.sem_over:
        w.violation('C20', 'permit-double-release',
                    'semaphore value exceeded its initial value %d time(s)' % w.sem_over)
    R = w.shutdown_return
    for t in w.transfers:
        if t['future'] is None:
            continue
        dones = [c for c in t['cbs'] if c[1] == 'done']
        nsubs = t['spec'].get('nsubs', 1)
        if len(dones) != nsubs:
            w.violation('C20', 'on-done-count',
                        't%d: %d on_done call(s) for %d subscriber(s)'
                        % (t['idx'], len(dones), nsubs))
        for c in dones:
            if c[2]:
                w.violation('C20', 'reported-finished-before-on-done',
                            't%d: callbacks were reported complete before on_done ran' % t['idx'])
            if R is not None and c[0] > R:
                w.violation('C20', 'on-done-after-shutdown',
                            't%d: on_done at stamp %d after shutdown returned at %d'
                            % (t['idx'], c[0], R))
        if not getattr(getattr(t['future']._coordinator, '_done_event', None), 'is_set', lambda: True)():
            w.violation('C20', 'callbacks-never-complete',
                        't%d: done callbacks were never reported complete' % t['idx'])
        if t['type'] == 'download' and t['spec']['dst'] == 'path' and \
                (t.get('at_complete') or (0, []))[1] and not any(
                    fr['spec']['site'] == 'fs' and fr['spec'].get('op') == 'remove'
                    and fr['spec'].get('dest') == t['path'] for fr in w.faults.fired):
            w.violation('C20', 'reported-finished-before-publish',
                        't%d: callbacks were reported complete while the temporary file(s) %r '
                        'were neither renamed nor removed yet' % (t['idx'], t['at_complete'][1]))
        if t['type'] == 'download' and t['spec']['dst'] == 'path':
            p = t['path']
            temps = w.fs.temps_of(p)
            fs_faults = [fr['spec'].get('op') for fr in w.faults.fired
                         if fr['spec']['site'] == 'fs' and fr['spec'].get('dest') == p]
            if temps and 'remove' not in fs_faults:
                w.violation('C20', 'temp-left',
                            't%d: temporary file(s) %r remain' % (t['idx'], temps))
            cur = w.fs.files.get(p)
            cur = bytes(cur) if cur is not None else None
            err = t.get('crt_error')
            made = t['request'] is not None
            if made and err is None and 'rename' in fs_faults:
                # the final rename failed: nothing is published, the temporary
                # file is removed and the transfer reports the failure
                if cur != t['prev']:
                    w.violation('C20', 'failed-download-touched-dest',
                                't%d: the rename failed but destination changed to %r'
                                % (t['idx'], _short(cur)))
                # (result() may have returned before on_done ran at all - the
                # CRT resolves its future first - so nothing is claimed about it)
            elif t.get('shared_dest') and (not made or err is not None):
                pass      # the twin may legitimately have published the object
            elif made and err is None:
                if cur != t['expect']:
                    w.violation('C20', 'download-not-published',
                                't%d: CRT request succeeded but destination holds %r'
                                % (t['idx'], _short(cur)))
            elif cur != t['prev']:
                w.violation('C20', 'failed-download-touched-dest',
                            't%d: request failed (%r) but destination changed to %r'
                            % (t['idx'], err, _short(cur)))
    if R is not None:
        for (stamp, op, path, extra, tid) in w.fs.log:
            if stamp > R and op in ('rename', 'remove'):
                w.violation('C20', 'fs-after-shutdown',
                            'fs %s %s at %d after shutdown returned at %d' % (op, path, stamp, R))
                break
    return harness


def generate(prop, seed):
    rng = random.Random(seed)
    if rng.random() < 0.004:
        # more submissions than the manager's 128 permits over its lifetime, one
        # early transfer still in flight when shutdown begins
        n = rng.randint(129, 136)
        transfers = [{'type': 'delete', 'outcome': 'ok', 'size': 0, 'nsubs': 1, 'chunk': 1,
                      'partial': 0} for _ in range(n)]
        slow = rng.randrange(0, n - 128)
        transfers[slow]['slow'] = True
        if rng.random() < 0.5:
            transfers[slow]['type'] = 'download'
            transfers[slow]['dst'] = 'path'
            transfers[slow]['prev'] = None
            transfers[slow]['size'] = 3
        est = 120 + 80 * n
        return {'permits': rng.choice([2, 3]), 'loops': rng.choice([1, 2]),
                'transfers': transfers, 'faults': [],
                'driver': [['submit', i] for i in range(n)] + [['shutdown']],
                'translate': False, 'strategy': gen_strategy(rng, est),
                'sched_seed': rng.randrange(1 << 62), 'fs_seed': rng.randrange(1 << 30),
                'max_steps': 80 * est + 20000, 'seed': seed, 'prop': prop}
    permits = rng.choice([1, 1, 2, 3])
    n = rng.randint(1, 6)
    transfers = []
    for i in range(n):
        ty = wchoice(rng, [('download', 5), ('upload', 3), ('delete', 2)])
        outcome = wchoice(rng, [('ok', 5), ('error', 2), ('error_generic', 1),
                                ('construct_fail', 1.5)])
        spec = {'type': ty, 'outcome': outcome, 'size': rng.randint(0, 12),
                'nsubs': rng.choice([1, 1, 2]), 'chunk': rng.randint(1, 5),
                'partial': rng.randint(0, 12)}
        if outcome == 'construct_fail':
            spec['where'] = rng.choice(['serialize', 'make_request'])
        if ty == 'download':
            spec['dst'] = rng.choice(['path', 'path', 'stream'])
            spec['prev'] = wchoice(rng, [(None, 2), (rng.randint(0, 5), 1)])
        if ty == 'upload':
            spec['src'] = rng.choice(['path', 'stream'])
        transfers.append(spec)
    paths = [i for i, s in enumerate(transfers) if s['type'] == 'download' and s.get('dst') == 'path']
    if paths and n < 6 and rng.random() < 0.12:
        j = rng.choice(paths)
        twin = dict(transfers[j], same_dest_as=j,
                    outcome=wchoice(rng, [('ok', 3), ('error', 3), ('error_generic', 1)]))
        transfers.append(twin)
        n += 1
    faults = []
    for i, spec in enumerate(transfers):
        if spec.get('same_dest_as') is not None or any(
                s.get('same_dest_as') == i for s in transfers):
            continue
        if spec['type'] == 'download' and spec.get('dst') == 'path' and rng.random() < 0.2:
            # the file system refuses the final rename, or the removal of the
            # temporary file (with an OSError that is not "no such file")
            faults.append({'site': 'fs', 'op': rng.choice(['rename', 'remove', 'remove']),
                           'dest': '/d/crt%d' % i,
                           'exc': rng.choice(['oserror', 'eio', 'permission'])})
    est = 120 + 80 * n
    script = [['submit', i] for i in range(n)]
    r = rng.random()
    if r < 0.25:
        k = rng.randrange(n)
        script.insert(rng.randint(k + 1, n), ['cancel', k])
    r = rng.random()
    if r < 0.4:
        script += [['result', i] for i in range(n)] + [['shutdown']]
    elif r < 0.6:
        script += [['shutdown', True]]
    elif r < 0.8:
        script += [['shutdown']]
    else:
        script += [['wait_step', rng.randint(0, est)], ['with_raise']]
    return {'permits': permits, 'loops': rng.choice([1, 2, 3]), 'transfers': transfers,
            'faults': faults,
            'driver': script, 'translate': rng.random() < 0.5,
            'strategy': gen_strategy(rng, est), 'sched_seed': rng.randrange(1 << 62),
            'fs_seed': rng.randrange(1 << 30), 'max_steps': 80 * est + 20000,
            'seed': seed, 'prop': prop}


def execute(sc, choices=None, lenient=False):
    if choices is not None:
        chooser = kernel.ReplayChooser(choices, lenient=lenient)
    else:
        chooser = kernel.RandomChooser(sc['sched_seed'], tuple(sc['strategy']))
    w = CRTWorld(sc, chooser).run()
    harness = evaluate(w)
    sim = w.sim
    kinds = {}
    for t in sc['transfers']:
        c = kinds.setdefault('request:' + t['outcome'], [0, 0])
        c[0] += 1
        c[1] += 1
    kinds['cancel-call'] = [w.cancel_calls, w.cancel_calls]
    kinds['submitter-waited-for-permit'] = [w.blocked_for_permit, w.blocked_for_permit]
    bad = any(t['outcome'] != 'ok' for t in sc['transfers'])
    return {
        'steps': sim.steps, 'switches': sim.switches, 'digest': sim.digest,
        'multi_points': sim.multi_points, 'sim_time': 0.0,
        'violations': w.violations, 'harness': harness,
        'harness_detail': [h[1] for h in harness][:1],
        'fault_kinds': kinds,
        'probes': dict(w.probes, max_outstanding=w.max_outstanding),
        'nontrivial': sim.multi_points >= 1 and (bad or w.cancel_calls > 0
                                                 or w.blocked_for_permit > 0),
        'requests': w.made, 'states': [], 'trace': sim.trace,
        'strategy': sc['strategy'][0],
    }


def sample_of(sc, res):
    return {'permits': sc['permits'], 'loops': sc['loops'], 'transfers': sc['transfers'],
            'driver': sc['driver'], 'strategy': sc['strategy'],
            'first_choices': res['trace'][:40]}


def shrink_candidates(sc):
    import copy
    n = len(sc['transfers'])
    if n > 1:
        for i in range(n - 1, -1, -1):
            c = copy.deepcopy(sc)
            del c['transfers'][i]
            drv = []
            for a in c['driver']:
                if a[0] in ('submit', 'cancel', 'result'):
                    if a[1] == i:
                        continue
                    if a[1] > i:
                        a = [a[0], a[1] - 1] + a[2:]
                drv.append(a)
            c['driver'] = drv
            yield c
    if sc['loops'] > 1:
        c = copy.deepcopy(sc)
        c['loops'] -= 1
        yield c
