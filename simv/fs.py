"""SimFS: in-memory file system whose every mutation is a scheduling point and
a crash point (namespace invariants are evaluated on the state a crash at that
instant would expose)."""
import errno

from .faults import make_exc


# ---- `os` as seen by the s3transfer modules ------------------------------------
# remove / rename / replace go to the file system of the running simulation, so
# that the library's OWN code around them (OSUtils.remove_file swallowing
# errors, compat.rename_file) is executed rather than replaced by the harness.
import os as _real_os
import types as _types

_ACTIVE = [None]


class _SimOSModule(_types.ModuleType):
    def __getattr__(self, k):
        return getattr(_real_os, k)


def _active_fs():
    from . import kernel
    if kernel._CURRENT is None:
        return None
    return _ACTIVE[0]


def _os_remove(path, *a, **k):
    fs = _active_fs()
    if fs is None:
        return _real_os.remove(path, *a, **k)
    return fs.remove(path)


def _os_rename(src, dst, *a, **k):
    fs = _active_fs()
    if fs is None:
        return _real_os.rename(src, dst, *a, **k)
    return fs.rename(src, dst)


class _SimOSPath(_types.ModuleType):
    def __getattr__(self, k):
        return getattr(_real_os.path, k)


def _path_getsize(path):
    fs = _active_fs()
    if fs is None:
        return _real_os.path.getsize(path)
    return fs.getsize(path)


def _os_posix_fallocate(fd, offset, length):
    fs = _active_fs()
    f = fs._fds.get(fd) if fs is not None else None
    if f is None:
        return _real_os.posix_fallocate(fd, offset, length)
    if offset < 0 or length <= 0:
        # posix_fallocate(3): EINVAL if len is 0 (or offset negative).  The
        # process-pool downloader pre-allocates with the object size, so an
        # EMPTY object cannot be downloaded through it on Linux - upstream
        # behaviour outside the listed properties (they are conditional on
        # success); recorded as an environmental fault of that download so that
        # its failure is not held against anything else
        exc = OSError(errno.EINVAL, 'Invalid argument')
        fs.faults.record({'id': -1, 'site': 'fs', 'op': 'allocate', 'dest': fs.dest_of(f.name),
                          'exc': 'einval', '_fired': 1}, exc, fs.sim.stamp(),
                         op='allocate', path=f.name)
        raise exc
    f._flush()
    node = f._node
    if len(node) < offset + length:
        node.extend(b'\0' * (offset + length - len(node)))
        fs.mutated('truncate', f.name, offset + length)


def _os_fstat(fd):
    fs = _active_fs()
    f = fs._fds.get(fd) if fs is not None else None
    if f is None:
        return _real_os.fstat(fd)
    f._flush()
    return _types.SimpleNamespace(st_size=len(f._node), st_mode=0o100644)


sim_os = _SimOSModule('os')
sim_os.fstat = _os_fstat


# `shutil` as seen by the s3transfer modules (the shipped code does not use it):
# move() with shutil's own semantics - rename, and when that fails copy the file
# over the destination and delete the source - on the SimFS of the running run
import shutil as _real_shutil


class _SimShutilModule(_types.ModuleType):
    def __getattr__(self, k):
        return getattr(_real_shutil, k)


def _shutil_move(src, dst, *a, **k):
    fs = _active_fs()
    if fs is None:
        return _real_shutil.move(src, dst, *a, **k)
    try:
        fs.rename(src, dst)
    except OSError:
        data = fs.files.get(src)
        if data is None:
            raise
        fs.files[dst] = bytearray(data)
        fs.mutated('create', dst)
        fs.remove(src)
    return dst


sim_shutil = _SimShutilModule('shutil')
sim_shutil.move = _shutil_move
sim_os.posix_fallocate = _os_posix_fallocate
sim_os.path = _SimOSPath('os.path')
sim_os.path.getsize = _path_getsize
sim_os.remove = _os_remove
sim_os.unlink = _os_remove
sim_os.rename = _os_rename
sim_os.replace = _os_rename


class SimFile:
    def __init__(self, fs, path, mode, node):
        self.fs = fs
        self.name = path
        self.mode = mode
        self._node = node          # bytearray (regular) or list (special sink)
        self._pos = 0
        self.closed = False
        self._special = isinstance(node, list)
        # like io.BufferedWriter: written data reaches the file (and becomes
        # visible under its name) only when the buffer fills, on seek/flush,
        # or on close
        self._buf = []
        self._buffered = 0

    def _check(self):
        if self.closed:
            raise ValueError('I/O operation on closed file.')

    def write(self, data):
        self._check()
        fs = self.fs
        sim = fs.sim
        sim.spoint('fs.write')
        fs._lat('write', self.name, not getattr(self, '_wrote', False))
        self._wrote = True
        f = fs.faults.hit('fs', op='write', dest=fs.dest_of(self.name), path=self.name)
        if f is not None:
            exc = make_exc(f['exc'], f['id'])
            if f.get('short') and len(data) > 1:
                self._apply(data[:len(data) // 2])
            fs.faults.record(f, exc, sim.stamp(), op='write', path=self.name)
            if f.get('sticky'):
                # the condition persists for this file (file size limit, quota):
                # every later attempt to get its buffered data out fails the same way
                fs.sticky[self.name] = exc
                self._buf.append((self._pos, bytes(data)))
                self._buffered += len(data)
            raise exc
        if self.name in fs.sticky and not self._special:
            raise fs.sticky[self.name]
        self._apply(data)
        return len(data)

    def _apply(self, data):
        fs = self.fs
        if self._special:
            self._node.append((fs.sim.stamp(), fs.sim.current.tid, bytes(data)))
            fs.mutated('write', self.name, len(data))
            return
        self._buf.append((self._pos, bytes(data)))
        self._buffered += len(data)
        self._pos += len(data)
        if self._buffered > fs.buffer_size:
            self._flush()

    def _flush(self):
        if not self._buf:
            return
        if self.name in self.fs.sticky:
            raise self.fs.sticky[self.name]
        node = self._node
        n = 0
        for pos, data in self._buf:
            end = pos + len(data)
            if pos > len(node):
                node.extend(b'\0' * (pos - len(node)))
            node[pos:end] = data
            n += len(data)
        self._buf = []
        self._buffered = 0
        self.fs.mutated('write', self.name, n)

    def read(self, n=-1):
        self._check()
        self._flush()
        self.fs.sim.spoint('fs.read')
        f = self.fs.faults.hit('fs', op='read', path=self.name)
        if f is not None:
            exc = make_exc(f['exc'], f['id'])
            self.fs.faults.record(f, exc, self.fs.sim.stamp(), op='read',
                                  path=self.name)
            raise exc
        node = self._node
        if n is None or n < 0:
            n = len(node) - self._pos
        out = bytes(node[self._pos:self._pos + n])
        self._pos += len(out)
        self.fs.reads.append((self.fs.sim.seq, self.fs.sim.current.tid,
                              self.name, self._pos - len(out), len(out)))
        return out

    def seek(self, where, whence=0):
        self._check()
        if self._special:
            raise OSError(errno.ESPIPE, 'Illegal seek')
        self._flush()
        if whence == 0:
            self._pos = where
        elif whence == 1:
            self._pos += where
        elif whence == 2:
            self._pos = len(self._node) + where
        if self._pos < 0:
            self._pos = 0
            raise OSError(errno.EINVAL, 'Invalid argument')
        return self._pos

    def tell(self):
        self._check()
        return self._pos

    def seekable(self):
        return not self._special

    def readable(self):
        return 'r' in self.mode

    def flush(self):
        self._check()
        self._flush()

    def truncate(self, size=None):
        self._flush()
        if size is None:
            size = self._pos
        node = self._node
        if size < len(node):
            del node[size:]
        else:
            node.extend(b'\0' * (size - len(node)))
        self.fs.mutated('truncate', self.name, size)

    def fileno(self):
        fs = self.fs
        fd = getattr(self, '_fd', None)
        if fd is None:
            fs._next_fd += 1
            fd = self._fd = fs._next_fd
            fs._fds[fd] = self
        return fd

    def close(self):
        if self.closed:
            return
        fs = self.fs
        fs.sim.spoint('fs.close')
        self.closed = True
        fs.open_handles.discard(self)
        f = fs.faults.hit('fs', op='close', dest=fs.dest_of(self.name))
        if f is not None:
            # the final flush failed: buffered data is lost, the handle is closed
            self._buf = []
            self._buffered = 0
            exc = make_exc(f['exc'], f['id'])
            fs.faults.record(f, exc, fs.sim.stamp(), op='close', path=self.name)
            raise exc
        try:
            self._flush()
        except OSError:
            # like BufferedWriter.close(): the handle is closed, the data is lost
            self._buf = []
            self._buffered = 0
            raise

    def __enter__(self):
        return self

    def __exit__(self, *a):
        self.close()

    def __hash__(self):
        return id(self)


class SimFS:
    def __init__(self, world):
        self.world = world
        self.sim = world.sim
        self.faults = world.faults
        self.files = {}        # path -> bytearray
        self.special = {}      # path -> list of writes (FIFO sink)
        _ACTIVE[0] = self
        self._fds = {}
        self._next_fd = 100
        self.log = []          # (stamp, op, path, extra, tid)
        self.entered = {}      # (op, destination) -> True once a thread is inside it
        self.reads = []
        self.invariants = []   # callables(fs, op, path) evaluated after each mutation
        self.dests = {}        # dest path -> transfer idx
        self.open_handles = set()
        self.mutations = 0
        self.buffer_size = getattr(world, 'knobs', {}).get('fs_buffer', 8192)
        self.sticky = {}      # path -> the error every further write-out raises

    def _lat(self, op, path, first=False):
        """A slow file-system call (network file system, busy disk): the calling
        thread is away for that long in virtual time while everybody else runs."""
        fn = getattr(self.world, 'fs_latency', None)
        if fn is not None:
            d = fn(op, path, first)
            if d:
                self.slow_calls = getattr(self, 'slow_calls', 0) + 1
                self.sim.sleep(d)

    def dest_of(self, path):
        """The tracked destination a path belongs to (itself or its temp)."""
        if path in self.dests:
            return path
        for d in self.dests:
            if path.startswith(d + '.'):
                return d
        # a long destination name is shortened before the random suffix is
        # appended: the temporary name then shares all but the last few
        # characters with the destination and ends in '.' + 8 characters
        if len(path) > 9 and path[-9] == '.':
            stem = path[:-9]
            for d in self.dests:
                if d.startswith(stem) and len(stem) >= len(d) - 9:
                    return d
        return None

    def temps_of(self, dest):
        """Files that are temporaries of this destination (never itself)."""
        return [f for f in self.files if f != dest and self.dest_of(f) == dest]

    def mutated(self, op, path, extra=None):
        self.mutations += 1
        self.log.append((self.sim.stamp(), op, path, extra, self.sim.current.tid
                         if self.sim.current else -1))
        for inv in self.invariants:
            inv(self, op, path)

    # -- operations used through SimOSUtils ------------------------------------
    def open(self, path, mode):
        sim = self.sim
        sim.spoint('fs.open')
        self._lat('open', path)
        f = self.faults.hit('fs', op='open', dest=self.dest_of(path),
                            mode=mode[0])
        if f is not None:
            exc = make_exc(f['exc'], f['id'])
            self.faults.record(f, exc, sim.stamp(), op='open', path=path)
            raise exc
        if path in self.special:
            h = SimFile(self, path, mode, self.special[path])
            self.open_handles.add(h)
            return h
        if 'w' in mode:
            self.files[path] = bytearray()
            self.mutated('create', path)
        elif path not in self.files:
            raise FileNotFoundError(errno.ENOENT, 'No such file or directory', path)
        h = SimFile(self, path, mode, self.files[path])
        if 'a' in mode:
            h._pos = len(self.files[path])
        self.open_handles.add(h)
        return h

    def remove(self, path):
        self.sim.spoint('fs.remove')
        f = self.faults.hit('fs', op='remove', dest=self.dest_of(path))
        if f is not None:
            exc = make_exc(f['exc'], f['id'])
            self.faults.record(f, exc, self.sim.stamp(), op='remove', path=path)
            raise exc
        if path not in self.files:
            raise FileNotFoundError(errno.ENOENT, 'No such file or directory', path)
        del self.files[path]
        self.mutated('remove', path)

    def rename(self, src, dst):
        # (state triggers: "a thread is inside rename of this destination")
        self.entered[('rename', self.dest_of(dst))] = True
        self.sim.spoint('fs.rename')
        f = self.faults.hit('fs', op='rename', dest=self.dest_of(dst))
        if f is not None:
            exc = make_exc(f['exc'], f['id'])
            self.faults.record(f, exc, self.sim.stamp(), op='rename', path=dst)
            raise exc
        if src not in self.files:
            raise FileNotFoundError(errno.ENOENT, 'No such file or directory', src)
        self.files[dst] = self.files.pop(src)
        self.mutated('rename', dst, src)

    def getsize(self, path):
        f = self.faults.hit('fs', op='getsize', path=path)
        if f is not None:
            exc = make_exc(f['exc'], f['id'])
            self.faults.record(f, exc, self.sim.stamp(), op='getsize', path=path)
            raise exc
        if path not in self.files:
            raise FileNotFoundError(errno.ENOENT, 'No such file or directory', path)
        return len(self.files[path])

    def exists(self, path):
        return path in self.files or path in self.special

    def listdir(self):
        return sorted(self.files)


def make_osutils(fs):
    from s3transfer.utils import OSUtils, ReadFileChunk

    class SimOSUtils(OSUtils):
        # get_file_size is the library's own (os.path.getsize goes to SimFS)

        def open(self, filename, mode):
            return fs.open(filename, mode)

        # remove_file / rename_file are the library's own: they reach this file
        # system through the `os` the package was imported with (sim_os above)

        def is_special_file(self, filename):
            return filename in fs.special

        def open_file_chunk_reader(self, filename, start_byte, size, callbacks):
            f = fs.open(filename, 'rb')
            f.seek(start_byte)
            return ReadFileChunk(f, size, fs.getsize(filename), callbacks,
                                 enable_callbacks=False)

        # allocate is the library's own (compat.fallocate -> os.posix_fallocate
        # of the package's `os`, which acts on SimFS)

    return SimOSUtils()
