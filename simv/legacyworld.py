"""Legacy front-end engine: the real s3transfer.S3Transfer (upload_file /
download_file with MultipartUploader / MultipartDownloader, ShutdownQueue,
legacy OSUtils and ReadFileChunk) against SimS3/SimFS.  The call returning or
raising plays the role of the future."""
import gc
import random
import types

from . import kernel, seams, simstd
from .faults import FaultPlan
from .fs import SimFS
from .gen import RETRYABLE, gen_strategy, wchoice
from .s3 import SimS3
from .world import BUCKET, _short, collect_between_runs, pattern

NAME = 'legacy'
PROPS = ('C01', 'C02', 'C05', 'C06')
REAL = ['s3transfer.S3Transfer', 's3transfer.MultipartUploader',
        's3transfer.MultipartDownloader', 's3transfer.ShutdownQueue',
        's3transfer.OSUtils / ReadFileChunk / StreamReaderProgress (legacy)',
        'stdlib ThreadPoolExecutor/queue.Queue/futures.wait source (on simulated _thread)']
STUB = ['S3 client (SimS3)', 'builtin open / os of s3transfer/__init__.py (SimFS)',
        'OS scheduler (kernel)']
RULE = ('one evaluation = one simulated legacy S3Transfer.upload_file / download_file call '
        '(single or multipart/ranged) with an optional fault under a seeded schedule; '
        'distinct = distinct trace digest; non-trivial = >=2 threads runnable at some point '
        'AND (a fault fired OR >=2 requests in flight)')
ASSUMPTIONS = ['the call returning or raising plays the role of the future',
               'no write faults are injected into ranged legacy downloads: the legacy '
               'ShutdownQueue documents that it can still deadlock on IO failure, which is '
               'outside the claimed properties (C04 covers the transfer manager)']

_installed = False
_current = [None]


class _OsPath:
    @staticmethod
    def getsize(p):
        return _current[0].fs.getsize(p)

    @staticmethod
    def exists(p):
        return _current[0].fs.exists(p)


class _Stat:
    def __init__(self, n):
        self.st_size = n


class _Os:
    extsep = '.'
    path = _OsPath

    @staticmethod
    def fstat(fd):
        w = _current[0]
        return _Stat(len(w.fd_table[fd]._node))

    @staticmethod
    def remove(p):
        return _current[0].fs.remove(p)

    @staticmethod
    def rename(a, b):
        return _current[0].fs.rename(a, b)


def _open(filename, mode='r'):
    w = _current[0]
    f = w.fs.open(filename, mode)
    fd = len(w.fd_table) + 10
    w.fd_table[fd] = f
    f.fileno = lambda: fd
    return f


def install():
    global _installed
    if _installed:
        return
    seams.install_legacy()
    import s3transfer
    import s3transfer.compat
    s3transfer.open = _open
    s3transfer.os = _Os
    _installed = True


class LegacyWorld:
    def __init__(self, sc, chooser):
        install()
        self.scenario = sc
        self.knobs = sc.get('knobs', {})
        self.sim = kernel.Sim(chooser, max_steps=sc.get('max_steps', 60000))
        self.faults = FaultPlan(sc.get('faults'), self)
        self.s3 = SimS3(self, self.knobs)
        self.fs = SimFS(self)
        self.fd_table = {}
        self.violations = []
        self.probes = {}
        self.key_to_t = {}
        self.transfers = []
        self.config = None
        self.dirty = False
        self.progress = []
        self.outcome = None

    def probe(self, name, n=1):
        self.probes[name] = self.probes.get(name, 0) + n

    def violation(self, prop, cls, msg, sig=None):
        if self.sim.unwinding:
            return        # library code run while an aborted run is unwound
        self.violations.append([prop, cls, msg, dict(sig or {}, variant='legacy')])

    def latency(self, op, m):
        if self.knobs.get('latency') == 'random':
            return (0, 0, 0.01, 0.25)[self.sim.choose(4, 'lat')]
        return 0

    def t_of_key(self, key):
        return self.key_to_t.get(key)

    def on_request_begin(self, rec, n):
        pass

    def on_head_begin(self, rec, n):
        pass

    def on_object_written(self, key, rec):
        pass

    def on_bytes_moved(self, kind, ident, n):
        pass

    def _dest_invariant(self, fs, op, path):
        t = self.t
        if t['op'] != 'download' or path != t['path']:
            return
        cur = fs.files.get(path)
        if cur is None:
            ok = t['prev'] is None
        else:
            cur = bytes(cur)
            ok = (t['prev'] is not None and cur == t['prev']) or cur == t['expect']
        if not ok:
            self.violation('C06', 'partial-visible',
                           'legacy download_file: after %s the destination %s holds %r '
                           '(neither previous nor complete)' % (op, path, _short(cur)))

    def _driver(self):
        import s3transfer
        sc = self.scenario
        sim = self.sim
        seams.run_random.seed(sc.get('fs_seed', 0))
        cfg = sc['config']
        self.config = cfg
        spec = sc['call']
        t = {'idx': 0, 'op': spec['op'], 'spec': spec, 'expect': pattern(0, spec['size']),
             'prev': None}
        self.t = t
        self.transfers.append(t)
        self.fs.invariants.append(self._dest_invariant)
        if spec['op'] == 'upload':
            t['key'] = 'k0'
            t['path'] = '/d/lup0'
            self.fs.files[t['path']] = bytearray(t['expect'])
        else:
            t['key'] = 'o0'
            t['path'] = '/d/ldown0'
            self.s3.objects[(BUCKET, t['key'])] = t['expect']
            if spec.get('prev') is not None:
                t['prev'] = bytes(pattern(0, spec['prev'], salt=3))
                self.fs.files[t['path']] = bytearray(t['prev'])
            self.fs.dests[t['path']] = 0
        self.key_to_t[t['key']] = t
        config = s3transfer.TransferConfig(
            multipart_threshold=cfg['multipart_threshold'],
            max_concurrency=cfg['max_concurrency'],
            multipart_chunksize=cfg['multipart_chunksize'],
            num_download_attempts=cfg['num_download_attempts'],
            max_io_queue=cfg['max_io_queue'])
        xfer = s3transfer.S3Transfer(self.s3, config)
        world = self

        def cb(n):
            world.progress.append((sim.stamp(), n))
        try:
            if spec['op'] == 'upload':
                xfer.upload_file(t['path'], BUCKET, t['key'],
                                 callback=cb if spec.get('callback') else None)
            else:
                xfer.download_file(BUCKET, t['key'], t['path'],
                                   callback=cb if spec.get('callback') else None)
            self.outcome = ('ok', None, sim.stamp())
        except kernel.SimAbort:
            raise
        except BaseException as e:   # noqa
            self.outcome = ('exc', e, sim.stamp())

    def run(self):
        gc.disable()
        _current[0] = self
        try:
            self.sim.run(self._driver)
        finally:
            _current[0] = None
            simstd.reset_between_runs()
            collect_between_runs()
        return self


def evaluate(w):
    harness = []
    f = w.sim.failure
    if f is not None:
        if f[0] in ('deadlock', 'step-budget'):
            # a legacy hang is outside the claimed properties (see ASSUMPTIONS)
            w.probe('legacy-hang')
            return harness
        harness.append((f[0], f[1]))
    for e in w.sim.thread_errors:
        harness.append(('thread-exception', e[2] + ' ' + e[3][-1200:]))
    if harness:
        return harness
    t = w.t
    oc = w.outcome
    ok = oc is not None and oc[0] == 'ok'
    fired = [fr for fr in w.faults.fired if fr['exc'] is not None]
    from .oracles import check_complete_args
    n0 = len(w.violations)
    check_complete_args(w)
    if not ok and not fired and len(w.violations) == n0:
        # nothing was injected, so nothing may fail: a failure here is a bug of
        # the harness (or of the library) that must not pass silently
        import traceback
        e = oc[1] if oc else None
        harness.append(('unexpected-failure', '%r %s' % (e, ''.join(
            traceback.format_exception(type(e), e, e.__traceback__))[-1500:] if e else '')))
        return harness
    if t['op'] == 'upload':
        if ok:
            obj = w.s3.objects.get((BUCKET, t['key']))
            if obj != t['expect']:
                w.violation('C01', 'object-differs',
                            'legacy upload_file returned but object %r != file %r'
                            % (_short(obj), _short(t['expect'])))
            comps = [r for r in w.s3.log if r['op'] == 'complete_multipart_upload']
            if [r for r in w.s3.log if r['op'] == 'create_multipart_upload']:
                if len(comps) != 1:
                    w.violation('C01', 'complete-count',
                                'legacy upload_file returned with %d complete calls' % len(comps))
                for c in comps:
                    nums = [p.get('PartNumber') for p in c.get('parts_arg') or []]
                    if nums != list(range(1, len(nums) + 1)):
                        w.violation('C01', 'part-numbering', 'parts listed as %r' % nums)
        for u in w.s3.uploads.values():
            if not u['returned']:
                continue
            rs = [r for r in w.s3.log if r.get('UploadId') == u['id']]
            aborts = [r for r in rs if r['op'] == 'abort_multipart_upload']
            others = [r for r in rs if r['op'] in ('upload_part', 'complete_multipart_upload')]
            if u['completes'] > 1:
                w.violation('C05', 'completed-twice', '%s completed twice' % u['id'])
            if ok:
                if u['state'] != 'completed' or aborts:
                    w.violation('C05', 'success-not-completed',
                                'legacy upload_file returned but upload is %s (aborts=%d)'
                                % (u['state'], len(aborts)))
            elif not aborts:
                failed_op = None
                for r in rs:
                    if r.get('fault') is not None or r.get('error') is not None:
                        failed_op = r['op']
                w.violation('C05', 'orphan-upload',
                            'legacy upload_file raised %r but no abort was issued for %s '
                            '(state %s)' % (oc[1], u['id'], u['state']),
                            {'failed_op': failed_op})
            for a in aborts:
                for r in others:
                    if r['begin'] > a['begin']:
                        w.violation('C05', 'request-after-abort',
                                    '%s begins after the abort began' % r['op'])
                    elif r['end'] is None or r['end'] > a['begin']:
                        w.violation('C05', 'abort-while-in-flight',
                                    'abort began while %s part=%s was in flight'
                                    % (r['op'], r.get('PartNumber')))
    else:
        cur = w.fs.files.get(t['path'])
        cur = bytes(cur) if cur is not None else None
        temps = w.fs.temps_of(t['path'])
        if temps and not any(fr['spec']['site'] == 'fs' and fr['spec'].get('op') == 'remove'
                             for fr in w.faults.fired):
            w.violation('C06', 'temp-left',
                        'legacy download_file finished (%s) but temporary file(s) %r remain'
                        % (oc[0], temps))
        if ok:
            if cur != t['expect']:
                w.violation('C02', 'content-differs',
                            'legacy download_file returned but file holds %r, object is %r'
                            % (_short(cur), _short(t['expect'])))
        elif cur != t['prev']:
            w.violation('C06', 'dest-after-failure',
                        'legacy download_file raised %r; destination changed from %r to %r'
                        % (oc[1], _short(t['prev']), _short(cur)))
        per = {}
        for r in w.s3.log:
            if r['op'] == 'get_object':
                per.setdefault(r.get('Range'), []).append(r)
        for rng, rs in per.items():
            if len(rs) > w.config['num_download_attempts']:
                w.violation('C02', 'too-many-attempts',
                            'legacy: %d GetObject for range %r' % (len(rs), rng))
    return harness


def generate(prop, seed):
    rng = random.Random(seed)
    T = rng.randint(1, 10)
    C = rng.randint(1, 6)
    cfg = {'multipart_threshold': T, 'multipart_chunksize': C,
           'max_concurrency': rng.choice([1, 2, 3]),
           'num_download_attempts': rng.choice([1, 2, 3, 5]),
           'max_io_queue': rng.choice([1, 2, 100])}
    op = 'upload' if prop in ('C01', 'C05') else ('download' if prop in ('C02', 'C06')
                                                    else rng.choice(['upload', 'download']))
    multi = rng.random() < 0.7 or prop == 'C05'
    if multi:
        size = max(T, C * rng.randint(0, 3) + rng.randint(1, C))
    else:
        size = rng.randint(0, max(0, T - 1))
    call = {'op': op, 'size': size, 'callback': rng.random() < 0.5}
    faults = []
    ranged = size >= T
    nparts = (size + C - 1) // C if ranged else 1
    if op == 'download':
        call['prev'] = wchoice(rng, [(None, 2), (rng.randint(0, 6), 1)])
        if ranged:
            p = rng.randrange(nparts)
            rstr = 'bytes=%d-%s' % (p * C, '' if p == nparts - 1 else p * C + C - 1)
            plen = min(C, size - p * C)
        else:
            rstr, plen = None, size
        r = rng.random()
        if r < 0.35:
            n = rng.randint(1, max(1, cfg['num_download_attempts'] - 1)) \
                if cfg['num_download_attempts'] > 1 else 0
            for a in range(n):
                faults.append({'site': 'stream', 'key': 'o0', 'range': rstr, 'attempt': a,
                               'at': rng.randint(0, plen), 'exc': rng.choice(RETRYABLE)})
        elif r < 0.6:
            kind = rng.choice(['head', 'get', 'stream_fatal', 'exhaust', 'rename'] +
                              ([] if ranged else ['write', 'open']))
            if kind == 'head':
                faults.append({'site': 's3', 'op': 'head_object', 'key': 'o0', 'exc': 'client'})
            elif kind == 'get':
                faults.append({'site': 's3', 'op': 'get_object', 'key': 'o0', 'range': rstr,
                               'exc': 'client', 'when': rng.choice(['before', 'after'])})
            elif kind == 'stream_fatal':
                faults.append({'site': 'stream', 'key': 'o0', 'range': rstr, 'attempt': 0,
                               'at': rng.randint(0, plen), 'exc': rng.choice(['client', 'value'])})
            elif kind == 'exhaust':
                for a in range(cfg['num_download_attempts']):
                    faults.append({'site': 'stream', 'key': 'o0', 'range': rstr, 'attempt': a,
                                   'at': rng.randint(0, plen), 'exc': rng.choice(RETRYABLE)})
            elif kind == 'rename':
                faults.append({'site': 'fs', 'op': 'rename', 'dest': '/d/ldown0',
                               'exc': 'oserror'})
            elif kind == 'write':
                faults.append({'site': 'fs', 'op': 'write', 'dest': '/d/ldown0',
                               'nth': rng.randint(0, 2), 'exc': 'oserror'})
            else:
                faults.append({'site': 'fs', 'op': 'open', 'dest': '/d/ldown0', 'mode': 'w',
                               'exc': 'oserror'})
    else:
        r = rng.random()
        if r < 0.3:
            # client-level retries (body rewinds)
            if ranged:
                for p in range(1, nparts + 1):
                    if rng.random() < 0.5:
                        faults.append({'site': 'rewind', 'op': 'upload_part', 'key': 'k0',
                                       'part': p, 'at': [rng.randint(0, C + 1)
                                                         for _ in range(rng.randint(1, 2))]})
            else:
                faults.append({'site': 'rewind', 'op': 'put_object', 'key': 'k0', 'part': None,
                               'at': [rng.randint(0, size + 1)]})
        elif r < 0.6 or prop == 'C05' and r < 0.85:
            if ranged:
                kind = rng.choice(['create', 'part', 'part', 'complete', 'read', 'stat'])
                if kind == 'create':
                    faults.append({'site': 's3', 'op': 'create_multipart_upload', 'key': 'k0',
                                   'exc': 'client', 'when': rng.choice(['before', 'after'])})
                elif kind == 'part':
                    faults.append({'site': 's3', 'op': 'upload_part', 'key': 'k0',
                                   'part': rng.randint(1, nparts), 'exc': 'client',
                                   'when': rng.choice(['before', 'after'])})
                elif kind == 'complete':
                    faults.append({'site': 's3', 'op': 'complete_multipart_upload', 'key': 'k0',
                                   'exc': 'client', 'when': rng.choice(['before', 'after'])})
                elif kind == 'stat':
                    # the k-th size query of the source file fails (it may have
                    # been removed or become unreadable meanwhile)
                    faults.append({'site': 'fs', 'op': 'getsize', 'path': '/d/lup0',
                                   'nth': rng.randint(0, 2), 'exc': rng.choice(['oserror', 'eio'])})
                else:
                    faults.append({'site': 'fs', 'op': 'read', 'path': '/d/lup0',
                                   'nth': rng.randint(0, 3), 'exc': 'oserror'})
            else:
                faults.append({'site': 's3', 'op': 'put_object', 'key': 'k0', 'exc': 'client',
                               'when': rng.choice(['before', 'after'])})
    est = 200 + 90 * nparts + 8 * size
    return {'config': cfg, 'call': call, 'faults': faults,
            'knobs': {'sock_chunk': rng.choice([1, 3, 7, 8192]),
                      'short_reads': rng.random() < 0.6,
                      'sign_read': rng.random() < 0.3, 'pre_read': rng.random() < 0.2,
                      'latency': wchoice(rng, [('none', 3), ('random', 1)]),
                      'fs_buffer': wchoice(rng, [(8192, 3), (0, 1), (3, 1)])},
            'strategy': gen_strategy(rng, est), 'sched_seed': rng.randrange(1 << 62),
            'fs_seed': rng.randrange(1 << 30), 'max_steps': 60 * est + 20000,
            'seed': seed, 'prop': prop}


def execute(sc, choices=None, lenient=False):
    if choices is not None:
        chooser = kernel.ReplayChooser(choices, lenient=lenient)
    else:
        chooser = kernel.RandomChooser(sc['sched_seed'], tuple(sc['strategy']))
    w = LegacyWorld(sc, chooser).run()
    harness = evaluate(w)
    sim = w.sim
    kinds = {}
    for f in w.faults.summary():
        k = f['site'] + ':' + str(f.get('op') or f.get('exc') or '')
        c = kinds.setdefault(k, [0, 0])
        c[0] += 1
        c[1] += 1 if f['fired'] else 0
    fired = any(f['fired'] for f in w.faults.summary())
    return {
        'steps': sim.steps, 'switches': sim.switches, 'digest': sim.digest,
        'multi_points': sim.multi_points, 'sim_time': sim.now - sim.epoch,
        'violations': w.violations, 'harness': harness,
        'harness_detail': [h[1] for h in harness][:1],
        'fault_kinds': kinds, 'probes': dict(w.probes),
        'nontrivial': sim.multi_points >= 1 and (fired or w.s3.max_inflight >= 2),
        'requests': len(w.s3.log), 'states': [], 'trace': sim.trace,
        'strategy': sc['strategy'][0],
        'outcomes': [w.outcome[0] if w.outcome else None],
    }


def sample_of(sc, res):
    return {'config': sc['config'], 'call': sc['call'], 'faults': sc['faults'],
            'strategy': sc['strategy'], 'first_choices': res['trace'][:40],
            'outcomes': res['outcomes']}


def shrink_candidates(sc):
    import copy
    for j in range(len(sc.get('faults') or [])):
        c = copy.deepcopy(sc)
        del c['faults'][j]
        yield c
    for key, val in (('latency', 'none'), ('short_reads', False), ('sign_read', False),
                     ('pre_read', False)):
        if sc['knobs'].get(key) not in (None, val):
            c = copy.deepcopy(sc)
            c['knobs'][key] = val
            yield c
    if sc['config']['max_concurrency'] > 1:
        c = copy.deepcopy(sc)
        c['config']['max_concurrency'] = 1
        yield c
