"""Real code, no simulator: serial mode (NonThreadedExecutor), single-GET download to a
non-seekable stream; the destination's write() raises KeyboardInterrupt (Ctrl-C).
Expected (C03): result() must not return normally."""
import sys, io
sys.path.insert(0, sys.argv[1] if len(sys.argv) > 1 else '/repo')
from s3transfer.manager import TransferManager, TransferConfig
from s3transfer.futures import NonThreadedExecutor

class Body:
    def __init__(self, data): self._b = io.BytesIO(data)
    def read(self, n=-1): return self._b.read(n)
    def close(self): pass
    def set_socket_timeout(self, t): pass

class Client:
    class meta:
        class events:
            @staticmethod
            def register_first(*a, **k): pass
            @staticmethod
            def register_last(*a, **k): pass
            @staticmethod
            def register(*a, **k): pass
        class config:
            request_checksum_calculation = 'when_required'
            response_checksum_validation = 'when_required'
    def head_object(self, **kw): return {'ContentLength': 4}
    def get_object(self, **kw): return {'Body': Body(b'DATA'), 'ContentLength': 4}

class Dest:
    def __init__(self): self.written = []
    def write(self, data):
        raise KeyboardInterrupt('ctrl-c during write')

d = Dest()
m = TransferManager(Client(), TransferConfig(), executor_cls=NonThreadedExecutor)
try:
    f = m.download('b', 'k', d)
except BaseException as e:
    print('download() raised', repr(e)); sys.exit(0)
try:
    r = f.result()
    print('VIOLATION: result() returned', r, 'status', f._coordinator.status, 'written', d.written)
    sys.exit(1)
except BaseException as e:
    print('ok: result() raised', repr(e))
