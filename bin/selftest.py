#!/venv/bin/python
"""selftest determinism [--seeds N]

Every engine: N seeds, each run (a) twice in this interpreter, (b) in fresh
interpreters with two other PYTHONHASHSEED values and 4 vs 16 worker
processes.  The full records (digest, step/switch counts, choice trace,
violations) are compared; any difference is a harness bug (exit 2)."""
import argparse
import concurrent.futures as cf
import hashlib
import json
import multiprocessing
import os
import subprocess
import sys

VERIF = os.path.dirname(os.path.dirname(os.path.abspath(__file__)))
sys.path.insert(0, VERIF)

ENGINES = [('world', 'C01'), ('world', 'C02'), ('world', 'C03'), ('world', 'C04'),
           ('world', 'C07'), ('world', 'C11'), ('world', 'C18'), ('sem', 'C12'),
           ('coord', 'C17'), ('defer', 'C16'), ('bw', 'C13'), ('pp', 'C19'),
           ('crt', 'C20'), ('legacy', 'C05'), ('legacy', 'C06')]


def record(args):
    eng_name, prop, seed = args
    from simv import runner
    eng = runner.get_engine(eng_name)
    sc = eng.generate(prop, seed)
    r = eng.execute(sc)
    rec = {'digest': r['digest'], 'steps': r['steps'], 'switches': r['switches'],
           'trace': hashlib.sha1(json.dumps(r['trace']).encode()).hexdigest(),
           'violations': [[v[0], v[1], v[2]] for v in r['violations']],
           'harness': [list(h)[:1] for h in r['harness']],
           'sim_time': r.get('sim_time')}
    return json.dumps(rec, sort_keys=True)


def batch(engine, prop, seeds, jobs):
    ctx = multiprocessing.get_context('fork')
    with cf.ProcessPoolExecutor(max_workers=jobs, mp_context=ctx) as ex:
        return list(ex.map(record, [(engine, prop, s) for s in seeds], chunksize=8))


def clean(nseeds):
    """No engine may report anything on the unchanged tree - neither its own
    property nor a cross-hit of another one, no harness error, no spurious
    failure of a fault-free transfer."""
    import collections
    from simv import runner
    bad = 0
    for engine, prop in ENGINES + [('world', p) for p in ('C05', 'C06', 'C08', 'C09', 'C10', 'C13', 'C16', 'C17')] + \
            [('legacy', 'C01'), ('legacy', 'C02')]:
        ctx = multiprocessing.get_context('fork')
        seeds = [7919 * i + 3 for i in range(nseeds)]
        with cf.ProcessPoolExecutor(max_workers=16, mp_context=ctx) as ex:
            outs = list(ex.map(_clean_one, [(engine, prop, s) for s in seeds], chunksize=16))
        c = collections.Counter()
        for o in outs:
            c.update(o)
        probs = {k: v for k, v in c.items()}
        print('%-7s %-4s %5d seeds: %s' % (engine, prop, nseeds, probs or 'clean'))
        bad += sum(c.values())
    print('clean: %d problem(s)' % bad)
    return 2 if bad else 0


def _clean_one(args):
    engine, prop, seed = args
    from simv import runner
    eng = runner.get_engine(engine)
    r = eng.execute(eng.generate(prop, seed))
    out = ['V:%s/%s' % (v[0], v[1]) for v in r['violations']]
    out += ['H:%s' % h[0] for h in r['harness']]
    if (r.get('probes') or {}).get('spurious-failure'):
        out.append('spurious-failure')
    return out


def main():
    ap = argparse.ArgumentParser()
    ap.add_argument('what', nargs='?', default='determinism')
    ap.add_argument('--seeds', type=int, default=150)
    ap.add_argument('--child', nargs=3)
    a = ap.parse_args()
    if a.child:
        engine, prop, jobs = a.child[0], a.child[1], int(a.child[2])
        seeds = json.loads(sys.stdin.read())
        print(json.dumps(batch(engine, prop, seeds, jobs)))
        return 0
    if a.what == 'clean':
        return clean(a.seeds)
    bad = 0
    total = 0
    for engine, prop in ENGINES:
        seeds = [1000003 * i + 17 for i in range(a.seeds)]
        base = batch(engine, prop, seeds, 16)
        again = [record((engine, prop, s)) for s in seeds[:40]]
        outs = []
        for hs, jobs in (('12345', 4), ('987', 16)):
            env = dict(os.environ, PYTHONHASHSEED=hs)
            p = subprocess.run([sys.executable, os.path.abspath(__file__), '--child',
                                engine, prop, str(jobs)], input=json.dumps(seeds),
                               capture_output=True, text=True, env=env, timeout=1200)
            if p.returncode != 0:
                print('HARNESS-ERROR: child failed', engine, prop, p.stderr[-800:])
                return 2
            outs.append(json.loads(p.stdout.strip().splitlines()[-1]))
        diffs = 0
        for i, s in enumerate(seeds):
            variants = {base[i], outs[0][i], outs[1][i]}
            if i < 40:
                variants.add(again[i])
            if len(variants) != 1:
                diffs += 1
                if diffs <= 2:
                    print('  DIFF engine=%s prop=%s seed=%d:\n   %s' % (
                        engine, prop, s, '\n   '.join(sorted(variants))[:1500]))
        total += len(seeds)
        bad += diffs
        print('%-7s %-4s %4d seeds x 3 interpreters (hash seeds 0/12345/987, 16/4/16 workers)'
              ' + in-process repeat: %d differing' % (engine, prop, len(seeds), diffs))
    print('determinism: %d seeds, %d differing' % (total, bad))
    return 2 if bad else 0


if __name__ == '__main__':
    if os.environ.get('PYTHONHASHSEED') is None:
        os.environ['PYTHONHASHSEED'] = '0'
        os.execv(sys.executable, [sys.executable] + sys.argv)
    sys.exit(main())
