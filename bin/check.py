#!/venv/bin/python
"""check <Cxx> [--tier quick|thorough] | --replay <file>

exit 0: property held on everything explored (KNOWN-FINDING lines possible)
exit 1: VIOLATION property=<id> replay=<path>
exit 2: harness error (never to be read as either of the above)
"""
import argparse
import os
import sys

VERIF = os.path.dirname(os.path.dirname(os.path.abspath(__file__)))
sys.path.insert(0, VERIF)

if os.environ.get('PYTHONHASHSEED') is None:
    os.environ['PYTHONHASHSEED'] = '0'
    os.execv(sys.executable, [sys.executable] + sys.argv)

from simv import plans, runner  # noqa: E402


def main():
    ap = argparse.ArgumentParser()
    ap.add_argument('prop', nargs='?')
    ap.add_argument('--tier', default=os.environ.get('VERIF_TIER') or 'quick')
    ap.add_argument('--replay')
    ap.add_argument('--runs', type=int)
    ap.add_argument('--cap', type=float)
    a = ap.parse_args()
    if a.replay:
        return runner.do_replay(a.replay)
    if not a.prop:
        ap.error('property id required')
    tier = a.tier if a.tier in ('quick', 'thorough') else 'quick'
    return plans.run(a.prop, tier, a.runs, a.cap)


if __name__ == '__main__':
    sys.exit(main())
